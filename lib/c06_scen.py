"""C06 scenarios: the operation vocabulary, the executor that runs one scenario on a
lib.c06_rig.World under the virtual-time loop, the fixed catalogue of directed scenarios and the
conversion of TLC-simulated behaviours of specs/Link/Link.tla into scenarios.

A scenario is a dict:
  cfg: n, ext (device numbers with the extended advertising commands), classic, seed, hci_delay,
       link_delay, same_bytes, slow ({device: [min, max]}: that device's HCI delays are drawn from this band)
  ops: list of
    ("adv", d, kind, flav)  ("advstop", d)  ("scan", d, mode)      kind: "pub" | "rnd" | "set" (advertising set with its own random address)
    ("connect", d, tr, j, kind, own)     start Device.connect (not awaited); one per device and transport at a time
    ("send", d, j, tr)  ("disconnect", d, j, tr)   on d's connection (tr = "sco": (e)SCO link) to device j (waits for it, bounded)
    ("sco", d, j)                        d asks for an (e)SCO link on its BR/EDR connection to j
    ("wait", seconds)  ("settle",)
"""
from __future__ import annotations

import asyncio

from lib import vt
from lib.c06_rig import ADV_INTERVAL_MS, World

WAIT_FOR_CONNECTION = 1.5  # virtual seconds an operation waits for the connection it is about


def run_scenario(sc, patch=None):
    """-> dict(events, errors, unhandled, skipped)"""
    cfg = sc["cfg"]
    out = {"events": [], "errors": [], "unhandled": [], "skipped": []}
    loop = vt.new_loop()
    loop.set_exception_handler(lambda lp, ctx: out["unhandled"].append(repr(ctx.get("exception") or ctx.get("message"))[:300]))

    async def main():
        w = World(cfg["n"], ext=set(cfg.get("ext", ())), classic=cfg.get("classic", False), seed=cfg.get("seed", 0),
                  hci_delay=cfg.get("hci_delay", 0.0), link_delay=cfg.get("link_delay", 0.0),
                  same_bytes=cfg.get("same_bytes", False), patch=patch, slow=cfg.get("slow"), vary_rsp=cfg.get("vary_rsp", False))
        out["events"] = w.events
        out["errors"] = w.errors
        await w.power_on()

        async def conn_of(d, j, tr):
            waited = 0.0
            while True:
                c = w.find(d, j, tr)
                if c is not None or waited >= WAIT_FOR_CONNECTION:
                    return c
                await asyncio.sleep(0.01)
                waited += 0.01

        calls = {}
        closing = set()  # pairs whose BR/EDR connection was asked to disconnect
        sco_state = {}  # frozenset({d, j}) -> "asked" | "closing"

        def pending(d, tr):
            return (d, tr) in calls and not calls[(d, tr)].done()

        def sco_busy(d, j):
            """an (e)SCO link between d and j is being set up, up, or being torn down (Link.tla: ScoLive)"""
            st = sco_state.get(frozenset((d, j)))
            if st is None:
                return False
            return w.find(d, j, "sco") is not None or w.find(j, d, "sco") is not None or st == "asked"

        for op in sc["ops"]:
            k = op[0]
            if k == "adv":
                if w.dev(op[1]).is_advertising:  # the connection that ended it in the model did not happen here
                    out["skipped"].append(list(op))
                else:
                    await w.start_adv(op[1], op[2], op[3])
            elif k == "advstop":
                await w.stop_adv(op[1])
            elif k == "scan":
                await w.set_scan(op[1], op[2])
            elif k == "connect":
                # one awaited connect per device (the model's `call`); where the real run went another way
                # than the behaviour the scenario was derived from, the operation does not apply
                # (the model's `call`: one per device and transport; no page while the controller has an LE create-connection pending)
                if (pending(op[1], op[2]) or (op[2] == "br" and pending(op[1], "le"))
                        or w.find(op[1], op[3], op[2]) is not None or w.find(op[3], op[1], op[2]) is not None):
                    out["skipped"].append(list(op))
                else:
                    if op[2] == "br":
                        closing.discard(frozenset((op[1], op[3])))
                    calls[(op[1], op[2])] = w.connect(*op[1:])
                    await asyncio.sleep(0)
            elif k == "sco":
                c = await conn_of(op[1], op[2], "br")
                if c is None or w.find(op[2], op[1], "br") is None or sco_busy(op[1], op[2]) or frozenset(op[1:3]) in closing:
                    out["skipped"].append(list(op))
                else:
                    sco_state[frozenset(op[1:3])] = "asked"
                    w.sco(op[1], c)
                    await asyncio.sleep(0)
            elif k in ("send", "disconnect"):
                c = await conn_of(op[1], op[2], op[3])
                if c is None or (k == "disconnect" and op[3] == "br" and sco_busy(op[1], op[2])):
                    out["skipped"].append(list(op))  # (the model leaves out an ACL disconnected under its (e)SCO link)
                elif k == "send":
                    w.send(op[1], c)
                else:
                    if op[3] == "sco":
                        sco_state[frozenset(op[1:3])] = "closing"
                    elif op[3] == "br":
                        closing.add(frozenset(op[1:3]))
                    w.disconnect(op[1], c)
                    await asyncio.sleep(0)
            elif k == "wait":
                await asyncio.sleep(op[1])
            elif k == "settle":
                await w.settle()
            else:
                raise ValueError(f"unknown operation {op}")
        if not sc["ops"] or sc["ops"][-1][0] != "settle":
            await w.settle()
        for t in w.tasks:
            if not t.done():
                t.cancel()

    task = loop.create_task(main())
    task.add_done_callback(lambda _t: loop.stop())  # advertisers left running would keep the loop busy
    try:
        # advertising timers never let the loop go quiescent: the scenario itself bounds the time
        while not task.done():
            if loop.run_until_quiescent(max_virtual=600.0) and not task.done():
                raise RuntimeError("scenario executor stalled (event loop quiescent)")
        task.result()
    finally:
        vt.close_loop(loop)
    return out


# ----------------------------------------------------------------------------- catalogue
KINDS = ("pub", "rnd")


def _cfg(n, ext=(), classic=False, seed=0, hci_delay=0.004, link_delay=0.0, same_bytes=False, slow=None, vary_rsp=False):
    c = dict(n=n, ext=sorted(ext), classic=classic, seed=seed, hci_delay=hci_delay, link_delay=link_delay, same_bytes=same_bytes)
    if vary_rsp:
        c["vary_rsp"] = True
    if slow:
        c["slow"] = {str(k): list(v) for k, v in slow.items()}
    return c


def pair(own, advk, flav, ext, closer, seed, **kw):
    """2 on the link + a bystander: connect, two PDUs each way, one side disconnects"""
    ops = [("adv", 2, advk, flav), ("connect", 1, "le", 2, advk, own), ("wait", 0.3),
           ("send", 1, 2, "le"), ("send", 2, 1, "le"), ("send", 1, 2, "le"), ("send", 2, 1, "le"), ("settle",),
           ("disconnect", closer, 3 - closer, "le"), ("settle",)]
    return dict(name=f"pair:{own}:{advk}:{flav}:ext={''.join(map(str, sorted(ext)))}:closer={closer}" + ("".join(f":{k}={v}" for k, v in sorted(kw.items()))),
                cfg=_cfg(3, ext, seed=seed, **kw), ops=ops)


def both_disconnect(tr, seed, **kw):
    """both ends ask for the disconnection at the same moment"""
    ops = ([("adv", 2, "rnd", "legacy")] if tr == "le" else []) + [
        ("connect", 1, tr, 2, "rnd" if tr == "le" else "pub", "rnd" if tr == "le" else "pub"), ("wait", 0.3),
        ("send", 1, 2, tr), ("send", 2, 1, tr), ("settle",), ("disconnect", 1, 2, tr), ("disconnect", 2, 1, tr), ("settle",)]
    return dict(name=f"both-disconnect:{tr}", cfg=_cfg(2, classic=(tr == "br"), seed=seed, **kw), ops=ops)


def pair_classic(closer, seed, **kw):
    ops = [("connect", 1, "br", 2, "pub", "pub"), ("wait", 0.2),
           ("send", 1, 2, "br"), ("send", 2, 1, "br"), ("send", 2, 1, "br"), ("settle",),
           ("disconnect", closer, 3 - closer, "br"), ("settle",)]
    return dict(name=f"pair:classic:closer={closer}", cfg=_cfg(3, classic=True, seed=seed, **kw), ops=ops)


def star(own2, k2, own3, k3, seed, flav2="legacy", flav3="legacy", **kw):
    """1 is central to 2 and to 3, which advertise at the same time; interleaved data; 4 scans"""
    ops = [("scan", 4, "passive"), ("adv", 2, k2, flav2), ("adv", 3, k3, flav3),
           ("connect", 1, "le", 3, k3, own3), ("wait", 0.3), ("connect", 1, "le", 2, k2, own2), ("wait", 0.3),
           ("send", 1, 2, "le"), ("send", 1, 3, "le"), ("send", 3, 1, "le"), ("send", 2, 1, "le"), ("send", 1, 3, "le"), ("send", 1, 2, "le"),
           ("settle",), ("disconnect", 3, 1, "le"), ("wait", 0.05), ("send", 1, 2, "le"), ("send", 2, 1, "le"), ("settle",)]
    ext = {3} | ({2} if flav2 == "ext" else set())
    return dict(name=f"star:{own2}:{k2}:{own3}:{k3}" + (f":{flav2}:{flav3}" if (flav2, flav3) != ("legacy", "legacy") else ""), cfg=_cfg(4, ext=ext, seed=seed, **kw), ops=ops)


def incoming_while_pending(own, k1, k3, seed, **kw):
    """1 calls connect(3) while 3 is silent; 1 advertises and 2 connects to it; then 3 advertises"""
    ops = [("connect", 1, "le", 3, k3, own), ("wait", 0.05), ("adv", 1, k1, "legacy"), ("connect", 2, "le", 1, k1, "rnd"), ("wait", 0.4),
           ("send", 2, 1, "le"), ("send", 1, 2, "le"), ("wait", 0.1),
           ("adv", 3, k3, "legacy"), ("wait", 0.4), ("send", 1, 3, "le"), ("send", 3, 1, "le"), ("send", 1, 2, "le"), ("settle",)]
    return dict(name=f"incoming-while-pending:le:{own}:{k1}:{k3}", cfg=_cfg(3, seed=seed, **kw), ops=ops)


def incoming_while_pending_classic(seed, **kw):
    """2 pages 1, and a moment later 1 pages 3: with HCI delays the incoming connection completes at 1 while
    the outgoing one is pending (or the other way round)"""
    ops = [("connect", 2, "br", 1, "pub", "pub"), ("wait", 0.02), ("connect", 1, "br", 3, "pub", "pub"), ("wait", 0.5),
           ("send", 1, 3, "br"), ("send", 3, 1, "br"), ("send", 2, 1, "br"), ("send", 1, 2, "br"), ("settle",)]
    return dict(name="incoming-while-pending:classic", cfg=_cfg(3, classic=True, seed=seed, **kw), ops=ops)


def race(k3, seed, **kw):
    """1 and 2 both wait for 3, which advertises once: one of them wins"""
    ops = [("connect", 1, "le", 3, k3, "rnd"), ("connect", 2, "le", 3, k3, "rnd"), ("wait", 0.05), ("adv", 3, k3, "legacy"), ("wait", 0.5),
           ("send", 3, 1, "le"), ("send", 3, 2, "le"), ("send", 1, 3, "le"), ("send", 2, 3, "le"), ("settle",)]
    return dict(name=f"race:{k3}", cfg=_cfg(3, seed=seed, **kw), ops=ops)


def mixed(seed, **kw):
    """LE and BR/EDR connections side by side on the same controllers (handles), 2 is central and peripheral"""
    ops = [("connect", 1, "br", 2, "pub", "pub"), ("wait", 0.2), ("adv", 2, "rnd", "legacy"), ("connect", 1, "le", 2, "rnd", "rnd"), ("wait", 0.3),
           ("adv", 3, "rnd", "legacy"), ("connect", 2, "le", 3, "rnd", "rnd"), ("wait", 0.3), ("connect", 3, "br", 1, "pub", "pub"), ("wait", 0.2),
           ("send", 1, 2, "br"), ("send", 1, 2, "le"), ("send", 2, 1, "le"), ("send", 2, 1, "br"), ("send", 2, 3, "le"), ("send", 3, 1, "br"), ("send", 1, 3, "br"),
           ("settle",), ("disconnect", 1, 2, "br"), ("settle",), ("send", 1, 2, "le"), ("send", 2, 1, "le"),
           ("connect", 2, "br", 1, "pub", "pub"), ("wait", 0.2), ("send", 2, 1, "br"), ("send", 1, 2, "br"), ("settle",)]
    return dict(name="mixed:le+classic", cfg=_cfg(3, classic=True, seed=seed, **kw), ops=ops)


def sco_links(requester, closer, seed, **kw):
    """an (e)SCO link on the BR/EDR connection 1-2, then - while it is up - further links on the controllers that hold it:
    3 pages 2, 1 connects to 3 over LE, 3 pages 1; data everywhere; the (e)SCO link is disconnected; data again; one more
    LE connection (a handle is free again)"""
    a, b = (1, 2) if requester == 1 else (2, 1)
    everywhere = [("send", 1, 2, "br"), ("send", 2, 1, "br"), ("send", 3, 2, "br"), ("send", 2, 3, "br"), ("send", 1, 3, "le"), ("send", 3, 1, "le"),
                  ("send", 3, 1, "br"), ("send", 1, 3, "br")]
    ops = [("connect", 1, "br", 2, "pub", "pub"), ("wait", 0.3), ("sco", a, b), ("wait", 0.3),
           ("connect", 3, "br", 2, "pub", "pub"), ("wait", 0.3),
           ("adv", 3, "rnd", "legacy"), ("connect", 1, "le", 3, "rnd", "rnd"), ("wait", 0.3),
           ("connect", 3, "br", 1, "pub", "pub"), ("wait", 0.3)] + everywhere + [("settle",),
           ("disconnect", closer, 3 - closer, "sco"), ("settle",)] + everywhere + [
           ("adv", 2, "pub", "legacy"), ("connect", 3, "le", 2, "pub", "pub"), ("wait", 0.3), ("send", 3, 2, "le"), ("send", 2, 3, "le"), ("settle",),
           ("disconnect", 1, 2, "br"), ("settle",)]
    return dict(name=f"sco:requester={requester}:closer={closer}", cfg=_cfg(3, classic=True, seed=seed, **kw), ops=ops)


BOTH_WAYS = [("send", 1, 2, "br"), ("send", 1, 2, "le"), ("send", 2, 1, "le"), ("send", 2, 1, "br"), ("send", 1, 2, "le"), ("send", 1, 2, "br")]


def both_transports(variant, own, seed, **kw):
    """1 and 2 are dual-mode; the LE side uses the public address, so one address names the peer on both transports.
      le-first:        1 pages 2 (whose host is slow to accept) and connects to 2 over LE: the LE connection completes while the page is pending
      classic-first:   1 pages 2 and connects to 2 over LE while 2 is silent: the BR/EDR connection completes while the LE connect is pending
      incoming-classic: 1 connects to (silent) 2 over LE, 2 pages 1: an incoming BR/EDR connection from the peer the LE connect is for
      incoming-le:     1 pages 2 (slow to accept), 2 connects to advertising 1 over LE: an incoming LE connection from the paged peer"""
    slow = None
    if variant == "le-first":
        slow = {2: (0.2, 0.3)}
        ops = [("adv", 2, "pub", "legacy"), ("wait", 0.2), ("connect", 1, "br", 2, "pub", "pub"), ("connect", 1, "le", 2, "pub", own), ("wait", 2.5)]
    elif variant == "classic-first":
        ops = [("connect", 1, "br", 2, "pub", "pub"), ("connect", 1, "le", 2, "pub", own), ("wait", 0.5), ("adv", 2, "pub", "legacy"), ("wait", 0.5)]
    elif variant == "incoming-classic":
        ops = [("connect", 1, "le", 2, "pub", own), ("wait", 0.05), ("connect", 2, "br", 1, "pub", "pub"), ("wait", 0.5), ("adv", 2, "pub", "legacy"), ("wait", 0.5)]
    elif variant == "incoming-le":
        slow = {2: (0.2, 0.3)}
        ops = [("adv", 1, "pub", "legacy"), ("wait", 0.2), ("connect", 2, "le", 1, "pub", own), ("connect", 1, "br", 2, "pub", "pub"), ("wait", 2.5)]
    else:
        raise ValueError(variant)
    ops += BOTH_WAYS + [("settle",), ("disconnect", 1, 2, "le"), ("settle",), ("send", 1, 2, "br"), ("send", 2, 1, "br"), ("settle",),
                        ("disconnect", 2, 1, "br"), ("settle",)]
    return dict(name=f"both-transports:{variant}:{own}", cfg=_cfg(3, classic=True, seed=seed, slow=slow, **kw), ops=ops)


def scan_rounds(mode, k, seed, **kw):
    """3 advertises (legacy) in three rounds with different payloads - the second round has an EMPTY scan response -,
    1 scans in `mode` all along: every round's reports carry that round's data"""
    ops = [("scan", 1, mode)]
    for _ in range(3):
        ops += [("adv", 3, k, "legacy"), ("settle",), ("advstop", 3), ("settle",)]
    ops += [("scan", 1, "off"), ("settle",)]
    return dict(name=f"scan-rounds:{mode}:{k}", cfg=_cfg(3, (), seed=seed, vary_rsp=True, **kw), ops=ops)


def scanning(mode, scanner_ext, k, flav, seed, **kw):
    """3 advertises (and scans), 1 scans in `mode`, 2 advertises with the other kind; nobody connects"""
    ext = ({1} if scanner_ext else set()) | ({3} if flav == "ext" else set())
    other = "pub" if k == "rnd" else "rnd"
    ops = [("scan", 1, mode), ("scan", 3, "active"), ("adv", 3, k, flav), ("adv", 2, other, "legacy"), ("settle",),
           ("scan", 1, "off"), ("advstop", 2), ("settle",)]
    return dict(name=f"scan:{mode}:scanner-ext={int(scanner_ext)}:{k}:{flav}", cfg=_cfg(3, ext, seed=seed, **kw), ops=ops)


def reconnect(own, k, seed, **kw):
    flav = "ext" if k == "set" else "legacy"
    ops = [("adv", 2, k, flav), ("connect", 1, "le", 2, k, own), ("wait", 0.3), ("send", 1, 2, "le"), ("settle",),
           ("disconnect", 2, 1, "le"), ("settle",),
           ("adv", 2, k, flav), ("connect", 1, "le", 2, k, own), ("wait", 0.3), ("send", 1, 2, "le"), ("send", 2, 1, "le"), ("settle",)]
    return dict(name=f"reconnect:{own}:{k}", cfg=_cfg(2, {2} if k == "set" else (), seed=seed, **kw), ops=ops)


def catalogue(quick, seed):
    out = []
    s = seed * 1000
    for own in KINDS:
        for advk in KINDS:
            out.append(pair(own, advk, "legacy", set(), 1 if own == advk else 2, s + 1))
            out.append(pair(own, advk, "legacy", {2}, 2 if own == advk else 1, s + 2, link_delay=0.003))
            out.append(pair(own, advk, "ext", {1, 2}, 1, s + 3))
            out.append(incoming_while_pending(own, advk, "rnd" if advk == "pub" else "pub", s + 4))
    out.append(pair("rnd", "rnd", "legacy", set(), 1, s + 5, same_bytes=True))
    out.append(pair("pub", "rnd", "legacy", set(), 2, s + 5, same_bytes=True, hci_delay=0.0))
    out += [pair_classic(1, s + 6), pair_classic(2, s + 7, link_delay=0.003)]
    for (o2, k2, o3, k3) in [("rnd", "rnd", "rnd", "rnd"), ("pub", "rnd", "rnd", "pub"), ("rnd", "pub", "pub", "rnd"), ("pub", "pub", "pub", "pub")]:
        out.append(star(o2, k2, o3, k3, s + 8))
    out.append(incoming_while_pending("rnd", "rnd", "rnd", s + 9, hci_delay=0.0))
    out.append(incoming_while_pending("rnd", "rnd", "rnd", s + 9, same_bytes=True))
    for i in range(3 if quick else 8):
        out.append(incoming_while_pending_classic(s + 10 + i, hci_delay=0.02))
    # extended advertising sets with a random address of their own: either own-address kind of the central, either side disconnects,
    # next to an advertiser that uses the controller's random address; reconnect; scanners are told the set's address
    out.append(pair("rnd", "set", "ext", {1, 2}, 1, s + 70))
    out.append(pair("pub", "set", "ext", {2}, 2, s + 71))
    out.append(pair("rnd", "set", "ext", {2}, 1, s + 72, link_delay=0.003))
    out.append(star("rnd", "set", "pub", "rnd", s + 73, flav2="ext", flav3="ext"))
    out.append(star("pub", "set", "rnd", "set", s + 74, flav2="ext", flav3="ext"))
    out.append(scanning("active", True, "set", "ext", s + 75))
    # (e)SCO links next to ACL connections of both transports
    out.append(sco_links(1, 1, s + 80))
    out.append(sco_links(2, 1, s + 81, link_delay=0.002))
    out.append(sco_links(1, 2, s + 82, hci_delay=0.02))
    # both transports between the same two devices, public addresses
    for i, variant in enumerate(("le-first", "classic-first", "incoming-classic", "incoming-le")):
        out.append(both_transports(variant, "pub", s + 90 + i))
        out.append(both_transports(variant, "rnd" if i % 2 else "pub", s + 95 + i, link_delay=0.003))
    for k3 in KINDS:
        out.append(race(k3, s + 20))
    out.append(race("rnd", s + 21, link_delay=0.004))
    out.append(mixed(s + 30))
    out.append(mixed(s + 31, link_delay=0.002))
    for mode in ("active", "passive"):
        for scanner_ext in (False, True):
            for k, flav in (("rnd", "legacy"), ("pub", "legacy"), ("pub", "ext")):
                out.append(scanning(mode, scanner_ext, k, flav, s + 40))
    out.append(scan_rounds("active", "rnd", s + 45))
    out.append(scan_rounds("active", "pub", s + 46, hci_delay=0.0))
    out.append(scan_rounds("passive", "rnd", s + 47))
    for own, k in (("rnd", "rnd"), ("pub", "pub"), ("rnd", "set")):
        out.append(reconnect(own, k, s + 50))
    for tr in ("le", "br"):
        out.append(both_disconnect(tr, s + 60))
        out.append(both_disconnect(tr, s + 61, hci_delay=0.0))
        out.append(both_disconnect(tr, s + 62, link_delay=0.005))
    if not quick:
        more = []
        for sc in out:
            for j, (hd, ld) in enumerate([(0.0, 0.0), (0.02, 0.0), (0.002, 0.01)]):
                c = dict(sc["cfg"], seed=sc["cfg"]["seed"] + 100 + j, hci_delay=hd, link_delay=ld)
                more.append(dict(name=sc["name"] + f":delays={hd}/{ld}", cfg=c, ops=sc["ops"]))
        out += more
    return out


# ----------------------------------------------------------------------------- TLC behaviours -> scenarios
def behaviour_to_ops(beh, rng, adv_wait=ADV_INTERVAL_MS / 1000.0):
    """beh: list of (action name, state dict) from lib.tlc.simulate.  Host-level actions (recognised by what
    they change in the state: TLC names actions quantified over the connection table just `Next`) become
    operations; runs of controller / link / host-event steps become waits (long enough for one
    advertising interval where a step needs an advertising PDU)."""
    ops = []
    pending_wait = 0.0

    def flush():
        nonlocal pending_wait
        if pending_wait > 0:
            ops.append(("wait", round(pending_wait, 4)))
            pending_wait = 0.0

    def emit(op):
        flush()
        ops.append(op)

    prev = None
    for name, st in beh:
        if prev is None:
            prev = st
            continue
        host_op = False
        for d, (a, b) in enumerate(zip(prev["adv"], st["adv"]), 1):
            if b["on"] and not a["on"]:
                emit(("adv", d, b["kind"], b["flav"]))
                host_op = True
            elif b["on"] and b["stopping"] and not a["stopping"]:
                emit(("advstop", d))  # StopAdvCall; the executor waits for the call to return (StopAdv)
                host_op = True
            elif a["on"] and a["stopping"] and not b["on"]:
                host_op = True  # StopAdv: nothing more to do
        for d, (a, b) in enumerate(zip(prev["scan"], st["scan"]), 1):
            if a != b:
                emit(("scan", d, b))
                host_op = True
        for d, (a, b) in enumerate(zip(prev["call"], st["call"]), 1):
            for tr in ("le", "br"):
                if a[tr] != b[tr] and b[tr]["on"]:
                    emit(("connect", d, tr, b[tr]["ta"][0], b[tr]["ta"][1], b[tr]["own"]))
                    host_op = True
        for b in st["conns"][len(prev["conns"]):]:
            if b["tr"] == "sco":
                emit(("sco", b["c"], b["p"]))
                host_op = True
        for a, b in zip(prev["conns"], st["conns"]):
            for s in ("c", "p"):
                me, peer = (b["c"], b["p"]) if s == "c" else (b["p"], b["c"])
                if b["ns"][s] > a["ns"][s]:
                    emit(("send", me, peer, b["tr"]))
                    host_op = True
                if b["want"][s] and not a["want"][s]:
                    emit(("disconnect", me, peer, b["tr"]))
                    host_op = True
        if st["quiesced"] and not prev["quiesced"]:
            pending_wait = 0.0
            ops.append(("settle",))
            host_op = True
        if not host_op:
            if len(st["conns"]) > len(prev["conns"]) or st["heard"] != prev["heard"]:
                pending_wait = max(pending_wait, adv_wait * (1.0 + rng.random()))  # needs an advertising PDU
            elif st["seen"] == prev["seen"]:
                pending_wait += rng.choice((0.0, 0.002, 0.01, 0.03))
        prev = st
    flush()
    return ops
