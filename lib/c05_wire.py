"""C05 observation layer: the harness' own decoders for HCI ACL / ISO data packets (written from Core
Vol 4 Part E 5.4.2 / 5.4.5, NOT bumble's classes), a reference fragmenter, deterministic PDU contents and
the stream trackers that turn what the taps see into events of specs/Hci/AclFragTrace.tla and
IsoFragTrace.tla.  Python only projects and compares bytes (ok / digest_ok / ids); TLC decides.
"""
from __future__ import annotations

import hashlib
import random
import struct

HCI_ACL = 0x02
HCI_EVENT = 0x04
HCI_ISO = 0x05
PB_START_HOST = 0  # first non-automatically-flushable (host -> controller)
PB_CONT = 1
PB_START_CTRL = 2  # first automatically flushable (controller -> host)


# ----------------------------------------------------------------------------- codecs
def acl_parse(packet):
    """HCI ACL data packet bytes -> dict(handle, pb, bc, ln, data) or None if it is not one."""
    if len(packet) < 5 or packet[0] != HCI_ACL:
        return None
    hf, ln = struct.unpack_from("<HH", packet, 1)
    return {"handle": hf & 0x0FFF, "pb": (hf >> 12) & 3, "bc": (hf >> 14) & 3, "ln": ln, "data": bytes(packet[5:])}


def acl_build(handle, pb, data, ln=None):
    ln = len(data) if ln is None else ln
    return struct.pack("<BHH", HCI_ACL, (handle & 0x0FFF) | (pb << 12), ln) + bytes(data)


def iso_parse(packet):
    """HCI ISO data packet bytes -> dict(handle, pb, ts, ln, n, psn, sdulen, status, data) or None."""
    if len(packet) < 5 or packet[0] != HCI_ISO:
        return None
    hf, lf = struct.unpack_from("<HH", packet, 1)
    pb = (hf >> 12) & 3
    ts = (hf >> 14) & 1
    ln = lf & 0x3FFF
    body = bytes(packet[5:])
    pos = 0
    psn = sdulen = status = 0
    hdr_ok = True
    if ts:
        pos += 4
    if pb in (0, 2):
        if len(body) >= pos + 4:
            psn, sl = struct.unpack_from("<HH", body, pos)
            sdulen = sl & 0x0FFF
            status = (sl >> 14) & 3
            pos += 4
        else:
            hdr_ok = False
            pos = len(body)
    return {"handle": hf & 0x0FFF, "pb": pb, "ts": ts, "ln": ln, "n": len(body), "psn": psn, "sdulen": sdulen,
            "status": status, "data": body[pos:], "hdr_ok": hdr_ok, "rfu": lf >> 14}


def number_of_completed_packets(handle, n):
    return struct.pack("<BBBBHH", HCI_EVENT, 0x13, 5, 1, handle, n)


def buffer_sizes(tap_log):
    """What the controller told its host during the reset sequence: {"acl": (len, count), "le": (len, count),
    "iso": (len, count)} from the Command Complete events of Read Buffer Size (0x1005), LE Read Buffer Size
    (0x2002) and LE Read Buffer Size [v2] (0x2060) seen controller -> host."""
    out = {}
    for direction, pkt in tap_log:
        if direction != "c2h" or len(pkt) < 6 or pkt[0] != HCI_EVENT or pkt[1] != 0x0E:
            continue
        (op,) = struct.unpack_from("<H", pkt, 4)
        rp = pkt[6:]
        if not rp or rp[0] != 0:
            continue
        if op == 0x1005 and len(rp) >= 8:
            ln, _sco, num, _nsco = struct.unpack_from("<HBHH", rp, 1)
            out["acl"] = (ln, num)
        elif op == 0x2002 and len(rp) >= 4:
            ln, num = struct.unpack_from("<HB", rp, 1)
            out["le"] = (ln, num)
        elif op == 0x2060 and len(rp) >= 7:
            ln, num, iln, inum = struct.unpack_from("<HBHB", rp, 1)
            out["le"] = (ln, num)
            out["iso"] = (iln, inum)
    return out


def l2cap_pdu(cid, payload):
    return struct.pack("<HH", len(payload), cid) + bytes(payload)


def payload_bytes(seed, ident, length):
    """Deterministic payload of PDU / SDU number ident."""
    return random.Random(f"{seed}/{ident}/{length}").randbytes(length)


def digest(cid, payload):
    return hashlib.sha1(struct.pack("<H", cid) + bytes(payload)).hexdigest()


def split(data, sizes):
    """Reference fragmenter: cut data at the given sizes (the last size repeats)."""
    out = []
    off = 0
    i = 0
    while off < len(data) or not out:
        n = sizes[min(i, len(sizes) - 1)]
        out.append(data[off : off + n])
        off += n
        i += 1
    return out


# ----------------------------------------------------------------------------- events
def ev(e, **kw):
    d = {"e": e, "kind": "", "kind2": "", "id": 0, "L": 0, "cid": 0, "pb": 0, "n": 0, "ln": 0, "decl": 0, "rep": 1, "ok": True, "digest_ok": True}
    d.update(kw)
    return d


class Direction:
    """One direction of one connection: the PDUs handed to the sender, in order, and the trackers that
    turn observed packets into trace events."""

    def __init__(self, kind):
        self.kind = kind  # "le" / "bredr" / "host"
        self.tx = []  # the sender's side: buf, pdu_out, frag, quiesce
        self.rx = []  # the receiver's side: pdu_out, cfrag, fault, pdu_in, quiesce
        self.pdus = []  # [(cid, payload, whole bytes)] by id - 1
        self._matched = 0  # PDUs matched by deliveries so far (ids are handed out in order of first match)
        self._taken = set()
        self._h = [0, 0]  # sender cursor: pdu index, offset
        self._c = [0, 0]  # controller -> host cursor: index of the PDU in progress (-1 none yet) / offset
        self._c_started = 0

    # -- what the sender's controller announced
    def buf(self, sizes):
        for k in ("acl", "le"):
            if k in sizes:
                self.tx.append(ev("buf", kind=self.kind, kind2=k, ln=sizes[k][0], n=sizes[k][1]))

    # -- sender's API boundary
    def pdu_out(self, cid, payload):
        payload = bytes(payload)
        self.pdus.append((cid, payload, l2cap_pdu(cid, payload)))
        e = ev("pdu_out", kind=self.kind, id=len(self.pdus), L=len(payload), cid=cid)
        self.tx.append(e)
        self.rx.append(dict(e))
        return len(self.pdus)

    @staticmethod
    def _run(events, e):
        """append e, or count it into the preceding identical CONTINUATION event (run-length)"""
        if events and e["pb"] == PB_CONT:
            last = events[-1]
            if last["e"] == e["e"] and all(last[k] == e[k] for k in ("pb", "n", "ln", "ok", "decl")):
                last["rep"] += 1
                return
        events.append(e)

    # -- sender's host -> controller packets
    def frag(self, p):
        i, off = self._h
        whole = self.pdus[i][2] if i < len(self.pdus) else b""
        data = p["data"]
        ok = whole[off : off + len(data)] == data and len(data) <= len(whole) - off
        self._run(self.tx, ev("frag", kind=self.kind, pb=p["pb"], n=len(data), ln=p["ln"], ok=ok))
        off += len(data)
        if i < len(self.pdus) and off >= len(whole):
            self._h = [i + 1, 0]
        else:
            self._h = [i, off]

    # -- receiver's controller -> host packets (position in the stream decides which bytes are expected)
    def cfrag(self, p):
        data = p["data"]
        start = p["pb"] in (0, 2)
        if start:
            i = self._c_started
            self._c_started += 1
            off = 0
        else:
            i, off = self._c
        whole = self.pdus[i][2] if 0 <= i < len(self.pdus) else b""
        ok = i >= 0 and whole[off : off + len(data)] == data and len(data) <= len(whole) - off
        decl = struct.unpack_from("<H", data, 0)[0] if (start and len(data) >= 2) else 0
        self._run(self.rx, ev("cfrag", kind=self.kind, pb=p["pb"], n=len(data), ln=p["ln"], decl=decl, ok=ok))
        off += len(data)
        self._c = [i, off] if off < len(whole) else [-1, 0]

    def fault(self, kind2, pb, data, ok=True):
        decl = struct.unpack_from("<H", data, 0)[0] if (pb != PB_CONT and len(data) >= 2) else 0
        self.rx.append(ev("fault", kind=self.kind, kind2=kind2, pb=pb, n=len(data), ln=len(data), decl=decl, ok=ok))

    # -- receiver's 'l2cap_pdu' event
    def pdu_in(self, cid, payload):
        payload = bytes(payload)
        ident = 0
        # the earliest sent PDU, not delivered yet, with these bytes
        for k in range(len(self.pdus)):
            if k in self._taken:
                continue
            c, pl, _ = self.pdus[k]
            if c == cid and len(pl) == len(payload) and pl == payload:
                ident = k + 1
                self._taken.add(k)
                break
        self.rx.append(ev("pdu_in", kind=self.kind, id=ident, L=len(payload), cid=cid, digest_ok=ident != 0))

    def quiesce(self):
        if self.kind != "host":
            self.tx.append(ev("quiesce", kind=self.kind, kind2="tx"))
        self.rx.append(ev("quiesce", kind=self.kind, kind2="rx"))


# ----------------------------------------------------------------------------- ISO
def iso_ev(e, **kw):
    d = {"e": e, "id": 0, "S": 0, "pb": 0, "ln": 0, "n": 0, "d": 0, "sdulen": 0, "psn": 0, "rep": 1, "ok": True}
    d.update(kw)
    return d


class IsoStream:
    def __init__(self):
        self.events = []
        self.sdus = []
        self._i = -1
        self._off = 0
        self._next = 0

    def buf(self, sizes):
        if "iso" in sizes:
            self.events.append(iso_ev("buf", ln=sizes["iso"][0], n=sizes["iso"][1]))

    def sdu_out(self, sdu):
        self.sdus.append(bytes(sdu))
        self.events.append(iso_ev("sdu_out", id=len(self.sdus), S=len(sdu)))

    def packet(self, p):
        data = p["data"]
        if p["pb"] in (0, 2):
            # first packet: it belongs to the next SDU that it can belong to (empty SDUs may have been skipped)
            i = self._next
            while i < len(self.sdus) and len(self.sdus[i]) == 0 and p["sdulen"] != 0:
                i += 1
            self._i, self._off = i, 0
            self._next = i + 1
        i, off = self._i, self._off
        whole = self.sdus[i] if 0 <= i < len(self.sdus) else b""
        ok = p["hdr_ok"] and p["ts"] == 0 and p["rfu"] == 0 and p["status"] == 0 and whole[off : off + len(data)] == data and len(data) <= len(whole) - off
        e = iso_ev("iso", pb=p["pb"], ln=p["ln"], n=p["n"], d=len(data), sdulen=p["sdulen"], psn=p["psn"], ok=bool(ok))
        last = self.events[-1] if self.events else None
        if e["pb"] == 1 and last and last["e"] == "iso" and all(last[k] == e[k] for k in ("pb", "ln", "n", "d", "ok")):
            last["rep"] += 1
        else:
            self.events.append(e)
        self._off = off + len(data)

    def quiesce(self):
        self.events.append(iso_ev("quiesce"))
