"""Parser for TLA+ values as printed by TLC (states in dot dumps, PrintT output, error traces).

Mapping:  <<a, b>> -> tuple,  {a, b} -> frozenset,  [k |-> v, ...] -> dict (record),
          (k :> v @@ k2 :> v2) -> dict (function), "s" -> str, 12 -> int, TRUE/FALSE -> bool,
          model values / identifiers -> Ident(str) (a str subclass),  a..b -> tuple range.
"""
from __future__ import annotations


class Ident(str):
    def __repr__(self):
        return f"Ident({str(self)})"


class ParseError(Exception):
    pass


def _freeze(v):
    if isinstance(v, dict):
        return tuple(sorted(((_freeze(k), _freeze(x)) for k, x in v.items()), key=repr))
    if isinstance(v, (list, tuple)):
        return tuple(_freeze(x) for x in v)
    if isinstance(v, (set, frozenset)):
        return frozenset(_freeze(x) for x in v)
    return v


class _P:
    def __init__(self, s):
        self.s = s
        self.i = 0

    def ws(self):
        s = self.s
        while self.i < len(s) and s[self.i] in " \t\r\n":
            self.i += 1

    def peek(self, n=1):
        return self.s[self.i : self.i + n]

    def expect(self, tok):
        self.ws()
        if not self.s.startswith(tok, self.i):
            raise ParseError(f"expected {tok!r} at {self.i}: {self.s[self.i:self.i+40]!r}")
        self.i += len(tok)

    def value(self):
        self.ws()
        s = self.s
        if self.i >= len(s):
            raise ParseError("unexpected end")
        c = s[self.i]
        if s.startswith("<<", self.i):
            self.i += 2
            items = self.items(">>")
            return tuple(items)
        if c == "{":
            self.i += 1
            items = self.items("}")
            return frozenset(_freeze(x) for x in items)
        if c == "[":
            self.i += 1
            self.ws()
            d = {}
            if self.peek() == "]":
                self.i += 1
                return d
            while True:
                self.ws()
                k = self.ident()
                self.expect("|->")
                d[str(k)] = self.value()
                self.ws()
                if self.peek() == ",":
                    self.i += 1
                    continue
                self.expect("]")
                return d
        if c == "(":
            self.i += 1
            d = {}
            while True:
                k = self.value()
                self.expect(":>")
                v = self.value()
                d[_freeze(k)] = v
                self.ws()
                if self.peek(2) == "@@":
                    self.i += 2
                    continue
                self.expect(")")
                return d
        if c == '"':
            j = self.i + 1
            out = []
            while s[j] != '"':
                if s[j] == "\\":
                    j += 1
                    out.append({"n": "\n", "t": "\t"}.get(s[j], s[j]))
                else:
                    out.append(s[j])
                j += 1
            self.i = j + 1
            return "".join(out)
        if c.isdigit() or (c == "-" and s[self.i + 1].isdigit()):
            j = self.i + 1
            while j < len(s) and s[j].isdigit():
                j += 1
            n = int(s[self.i : j])
            self.i = j
            if s.startswith("..", self.i):
                self.i += 2
                m = self.value()
                return tuple(range(n, m + 1))
            return n
        k = self.ident()
        if k == "TRUE":
            return True
        if k == "FALSE":
            return False
        return k

    def ident(self):
        self.ws()
        s = self.s
        j = self.i
        while j < len(s) and (s[j].isalnum() or s[j] == "_"):
            j += 1
        if j == self.i:
            raise ParseError(f"identifier expected at {self.i}: {s[self.i:self.i+40]!r}")
        k = Ident(s[self.i : j])
        self.i = j
        return k

    def items(self, close):
        out = []
        self.ws()
        if self.s.startswith(close, self.i):
            self.i += len(close)
            return out
        while True:
            out.append(self.value())
            self.ws()
            if self.peek() == ",":
                self.i += 1
                continue
            self.expect(close)
            return out


def parse_value(text: str):
    p = _P(text)
    v = p.value()
    p.ws()
    if p.i != len(p.s):
        raise ParseError(f"trailing text at {p.i}: {p.s[p.i:p.i+40]!r}")
    return v


def parse_state(text: str) -> dict:
    """Parse '/\\ x = 1\n/\\ y = <<>>' into {'x': 1, 'y': ()}."""
    p = _P(text)
    out = {}
    while True:
        p.ws()
        if p.i >= len(p.s):
            return out
        if p.s.startswith("/\\", p.i):
            p.i += 2
        name = p.ident()
        p.expect("=")
        out[str(name)] = p.value()


def seq(v):
    """A TLA+ sequence may print as a tuple or (for functions 1..n) as a dict."""
    if isinstance(v, dict):
        return tuple(v[k] for k in sorted(v))
    return tuple(v)
