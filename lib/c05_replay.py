"""C05 (A): replay of the TLC state graph of specs/Hci/AclFrag.tla into the real
HCI_AclDataPacketAssembler.feed_packet and into a real Host.on_packet path.

Every edge of the graph is one HCI ACL packet (a genuine fragment or a malformed one).  The model is
byte-exact (F and the lengths of the model ARE the byte counts), so the abstract fragment (id, off, len)
is mapped to real bytes of a real L2CAP PDU.  After every packet the deliveries made by the real code are
compared with the model's `dl`, and the assembler's idle / busy state with `asm.on`.
"""
from __future__ import annotations

import struct

from lib import c05_wire as w

JUNK = 0xEE
MISSING = object()


def norm(st):
    """TLC prints <<>> / <<r>> as tuples and records as dicts already."""
    return st


class Concrete:
    def __init__(self, f, seed=0):
        self.f = f
        self.seed = seed
        self._pdus = {}

    def pdu(self, ident, length):
        k = (ident, length)
        if k not in self._pdus:
            self._pdus[k] = w.l2cap_pdu(0x40 + ident, w.payload_bytes(self.seed, ident, length))
        return self._pdus[k]

    def packet(self, src, name, args, start_pb):
        """edge -> (pb, data, kind) with kind in start / tiny / cont; None for SendPdu (no packet)"""
        cur = src["cur"]
        if name == "SendPdu":
            return None
        if name == "EmitFrag":
            whole = self.pdu(cur["id"], cur["L"])
            n = min(self.f, len(whole) - cur["off"])
            data = whole[cur["off"] : cur["off"] + n]
            return (start_pb, data, "start") if cur["off"] == 0 else (w.PB_CONT, data, "cont")
        if name in ("InsertCont", "InsertJunk", "InsertExcess"):
            return (w.PB_CONT, bytes([JUNK]) * args[0], "cont")
        if name == "InsertTinyStart":
            return (start_pb, bytes([JUNK]) * args[0], "tiny")
        if name in ("InsertShortStart", "InsertStart"):
            n, j = args
            return (start_pb, (struct.pack("<H", j) + bytes([JUNK]) * (n - 2))[:n], "start")
        if name == "DuplicateStart":
            whole = self.pdu(cur["id"], cur["L"])
            return (start_pb, whole[: min(self.f, len(whole))], "start")
        raise ValueError(name)


class AsmTarget:
    """the assembler on its own"""

    name = "asm"

    def __init__(self, factory=None):
        from bumble import hci

        self.hci = hci
        self.out = []
        self.asm = (factory or hci.HCI_AclDataPacketAssembler)(lambda pdu: self.out.append(bytes(pdu)))

    def feed(self, pb, data):
        exc = None
        try:
            self.asm.feed_packet(self.hci.HCI_AclDataPacket(0x0040, pb, 0, len(data), data))
        except Exception as e:
            exc = e
        got, self.out = self.out, []
        return exc, got

    def busy(self):
        cd = getattr(self.asm, "current_data", MISSING)
        return MISSING if cd is MISSING else (cd is not None)

    def held(self):
        cd = getattr(self.asm, "current_data", MISSING)
        ln = getattr(self.asm, "l2cap_pdu_length", MISSING)
        if cd is MISSING or ln is MISSING or cd is None:
            return MISSING
        return (len(cd), ln)

    def close(self):
        pass


class HostTarget:
    """Host.on_packet -> Connection.on_hci_acl_data_packet -> assembler -> L2CAP_PDU.from_bytes -> 'l2cap_pdu'"""

    name = "host"

    def __init__(self, rig_, kind="le"):
        self.rig = rig_
        self.h = rig_.connect(kind)

    def feed(self, pb, data):
        exc, got = self.rig.feed(self.h, pb, data)
        return exc, [w.l2cap_pdu(cid, payload) for cid, payload in got]

    def _asm(self):
        c = self.rig.host.connections.get(self.h)
        return getattr(c, "assembler", None)

    def busy(self):
        a = self._asm()
        cd = getattr(a, "current_data", MISSING) if a is not None else MISSING
        return MISSING if cd is MISSING else (cd is not None)

    def held(self):
        a = self._asm()
        if a is None:
            return MISSING
        cd = getattr(a, "current_data", MISSING)
        ln = getattr(a, "l2cap_pdu_length", MISSING)
        if cd is MISSING or ln is MISSING or cd is None:
            return MISSING
        return (len(cd), ln)

    def close(self):
        self.rig.disconnect(self.h)


def run_path(target, conc, g, path, start_pb=w.PB_START_CTRL):
    """Feed one path of the graph.  -> (ops, None, log) or (ops, (action, clause, detail), log); log = what was fed
    and what the model expects after each packet (enough to re-run the path without the graph)"""
    ops = []
    log = []
    shadow = b""
    for ei in path:
        s, d, name, args = g.edges[ei]
        src, dst = g.nodes[s], g.nodes[d]
        pk = conc.packet(src, name, args, start_pb)
        ops.append([name, list(args)])
        if pk is None:
            continue
        pb, data, kind = pk
        # what the modelled assembler holds after this packet, in real bytes
        if kind == "start":
            shadow = data
        elif kind == "cont" and src["asm"]["on"]:
            shadow = shadow + data
        want = []
        if dst["dl"]:
            rec = dst["dl"][0]
            want = [shadow]
            if rec["id"] != 0 and shadow != conc.pdu(rec["id"], rec["L"]):
                raise AssertionError(f"harness: model says PDU {rec} is intact but the concrete bytes differ after {ops}")
            if len(shadow) != rec["L"] + 4:
                raise AssertionError(f"harness: concrete length {len(shadow)} != model {rec} after {ops}")
        log.append({"op": name, "pb": pb, "data": data.hex(), "tiny": kind == "tiny", "deliver": [x.hex() for x in want], "on": dst["asm"]["on"],
                    "held": [dst["asm"]["have"], dst["asm"]["want"]]})
        bad = check_packet(target, log[-1])
        if bad:
            return ops, (name,) + bad, log
    return ops, None, log


def check_packet(target, rec):
    """feed one logged packet and compare with the model's expectation -> None or (clause, detail)"""
    pb, data, want = rec["pb"], bytes.fromhex(rec["data"]), [bytes.fromhex(x) for x in rec["deliver"]]
    exc, got = target.feed(pb, data)
    if exc is not None and not rec["tiny"]:
        return ("raise", f"{type(exc).__name__}: {exc}")
    if got != want:
        clause = "lost" if (want and not got) else ("spurious" if (got and not want) else "corrupt")

        def show(xs):
            return [x[:12].hex() + "..(" + str(len(x)) + ")" for x in xs]

        return (clause, f"delivered {show(got)}, model {show(want)}")
    busy = target.busy()
    if busy is not MISSING and busy != rec["on"]:
        return ("state", f"assembler {'holds a partial PDU' if busy else 'is idle'}, model asm.on={rec['on']}")
    held = target.held()
    if held is not MISSING and rec["on"] and list(held) != list(rec["held"]):
        return ("state", f"assembler holds (bytes, announced) = {held}, model {tuple(rec['held'])}")
    return None
