"""C17 channel rigs: for every channel of Stack/Robust.tla a real two-device network (lib.rig.Net),
a victim application, an attacking side that sends raw bytes, a probe (the reference request of the
channel) and the fault-class generators (valid PDUs built with bumble's own classes, then mutated).

An injection *unit* is a list of (target, bytes): target "chan" = raw bytes on the channel under test
(L2CAP PDU on its CID / bytes of the AT stream / one HCI packet), "sig" = a PDU on the L2CAP signalling
channel of the same link (used for the valid-disconnect class of dynamic channels), "use" = NORMAL USE of
what the preceding parts of the unit negotiated (the bytes are the rig's own description of it: which DLC /
channel to open and write on): a short script of well-formed PDUs that depends on the victim's answers
(its CID, its credits), run inside the watchdog window of the same unit.

Classes made of well-formed PDUs only (Stack/Robust.tla: Structured, "advance") are ENUMERATED, not drawn:
`instances(cls)` lists (label, builder, continues) from the field layout of the protocol's PDUs
(`field_extremes`: every numeric field x {0, 1, max}) or from the list of its PDU types; the driver runs
every instance (variant index), in every phase of the reference transaction where the channel has one.
"""
from __future__ import annotations

import asyncio
import dataclasses
import struct

from bumble import a2dp, att, avc, avctp, avdtp, avrcp, hci, hfp, l2cap, rfcomm, sdp, smp
from bumble.core import UUID, PhysicalTransport
from bumble.gatt import Characteristic, Service

from lib import c17_mutate as mu
from lib import rig

PROBE_VALUE = b"C17-reference-value"
SDP_UUID = UUID("E6D55659-C8B4-4B85-96BB-B1143AF6D3AE")
SDP_HANDLE = 0x00010001


class RigError(Exception):
    """harness failure (machinery), never a verdict"""


# ----------------------------------------------------------------------------- corpus from bumble's classes
def auto_build(cls, rng, ints=(0, 1, 2, 3, 0x40, 0xFF), size=None, overrides=None):
    """instantiate a bumble PDU dataclass with plausible field values"""
    kw = {}
    overrides = overrides or {}
    tops = dict(int_fields(cls))  # a value drawn for a narrower field is cut to the field's width
    for f in dataclasses.fields(cls):
        if not f.init or f.name in ("code", "name", "_payload", "op_code", "event_code", "subevent_code", "_parameters",
                                    "parameters", "hci_packet_type", "fields"):
            continue
        if f.name in overrides:
            kw[f.name] = overrides[f.name]
            continue
        ts = str(f.type)
        if f.name in ("identifier", "transaction_id"):
            kw[f.name] = rng.randint(1, 250)
            continue
        if f.default is not dataclasses.MISSING or f.default_factory is not dataclasses.MISSING:
            continue
        if ts == "int":
            kw[f.name] = rng.choice(ints) & tops.get(f.name, 0xFFFFFFFF)
        elif ts == "bytes":
            n = size if size is not None else rng.choice([0, 1, 2, 7, 16, 16, 16, 20])
            kw[f.name] = bytes(rng.getrandbits(8) for _ in range(n))
        elif "Address" in ts:
            kw[f.name] = hci.Address("F0:F1:F2:F3:F4:F5")
        elif ts in ("Sequence[int]", "Iterable[int]", "list[int]"):
            kw[f.name] = [rng.choice(ints) & 0x3F for _ in range(rng.randint(1, 3))]
        elif ts in ("Sequence[bytes]", "list[bytes]"):
            kw[f.name] = [b"\x01\x02"]
        elif ts == "UUID":
            kw[f.name] = rng.choice([UUID.from_16_bits(0x2800), UUID.from_16_bits(0x2803), UUID.from_16_bits(0x2902), SDP_UUID])
        elif ts == "DataElement":
            kw[f.name] = sdp.DataElement.sequence([sdp.DataElement.uuid(rng.choice([UUID.from_16_bits(0x1101), SDP_UUID]))])
        elif "ServiceCapabilities" in ts:
            kw[f.name] = [avdtp.ServiceCapabilities(1, b""), avdtp.ServiceCapabilities(7, b"\x00\x00\x21\x15\x02\x35")]
        elif "EndPointInfo" in ts:
            kw[f.name] = [avdtp.EndPointInfo(1, 0, 0, 1)]
        elif ts.startswith("list[") or ts.startswith("Sequence["):
            kw[f.name] = []
        elif f.name in tops:
            kw[f.name] = rng.choice(ints) & tops[f.name]
        else:
            kw[f.name] = 1
    return cls(**kw)


# ----------------------------------------------------------------------------- extreme values from the field layout
_NOT_FIELDS = ("code", "name", "_payload", "op_code", "event_code", "subevent_code", "_parameters", "parameters",
               "hci_packet_type", "fields", "identifier", "transaction_id")


def int_fields(cls):
    """(name, largest value) of the numeric fields of a bumble PDU dataclass, read from its field layout
    (the hci.metadata spec of each dataclass field: byte width, '>2', or a custom codec = one byte)"""
    out = []
    for f in dataclasses.fields(cls):
        if not f.init or f.name in _NOT_FIELDS:
            continue
        md = f.metadata.get("bumble.hci") if f.metadata else None
        spec = getattr(md, "spec", None)
        if getattr(md, "list_begin", False) or getattr(md, "list_end", False):
            continue
        width = None
        if isinstance(spec, int) and not isinstance(spec, bool) and 1 <= abs(spec) <= 8:
            width = abs(spec)
        elif isinstance(spec, str) and spec.lstrip("<>").isdigit() and 1 <= int(spec.lstrip("<>")) <= 8:
            width = int(spec.lstrip("<>"))
        elif isinstance(spec, dict) and "size" in spec and isinstance(spec["size"], int) and 1 <= spec["size"] <= 8:
            width = spec["size"]
        elif isinstance(spec, dict) and callable(spec.get("serializer")):
            try:  # a custom codec (enumerations, flags, 6-bit SEIDs): its width is what it writes for 0
                w = len(spec["serializer"](0))
                width = w if 1 <= w <= 8 else None
            except Exception:
                width = None
        if width is not None:
            out.append((f.name, (1 << (8 * width)) - 1))
    return out


def field_extremes(classes, rng, to_bytes=bytes, prefix="", fixed=None, **kw):
    """-> [(label, builder)]: for every class, every numeric field of its layout set to 0, 1 and its largest value
    (all other fields plausible; `fixed` = {class name: {field: value}} pins fields that make the victim accept
    the PDU).  Values that bumble's own serialiser refuses are left out (a 6-bit field behind a custom codec:
    the largest value it can carry is used instead)."""
    import random as _random

    out = []
    for c in classes:
        pinned = (fixed or {}).get(c.__name__, {})
        for name, top in int_fields(c):
            def build(v, r, c=c, name=name, pinned=pinned):
                ov = dict(pinned)
                ov[name] = v
                return to_bytes(auto_build(c, r, overrides=ov, **kw))

            def buildable(v, build=build):
                try:
                    build(v, _random.Random(0))
                    return True
                except Exception:
                    return False

            values = [(0, "0"), (1, "1")]
            for t in (top, top >> 1, top >> 2):
                if buildable(t):
                    values.append((t, "max"))
                    break
            for v, txt in values:
                if buildable(v):
                    out.append((f"{prefix}{c.__name__}.{name}={txt}", lambda v=v, build=build: build(v, rng)))
    return out


def _classes(mod, prefix, base=None, skip=()):
    out = []
    for name in sorted(dir(mod)):
        c = getattr(mod, name)
        if not isinstance(c, type) or not dataclasses.is_dataclass(c) or not name.startswith(prefix) or name in skip:
            continue
        if base is not None and not (issubclass(c, base) and c is not base):
            continue
        out.append(c)
    return out


def build_corpus(classes, rng, to_bytes=bytes, per_class=2, **kw):
    """-> list of (class name, bytes); classes that cannot be built with generic values are skipped"""
    out = []
    for c in classes:
        for _ in range(per_class):
            try:
                out.append((c.__name__, to_bytes(auto_build(c, rng, **kw))))
            except Exception:
                # this class needs hand-made arguments; the corpus size is checked by the caller
                continue
    return out


# ----------------------------------------------------------------------------- base
ENUMERATED = ("extreme", "out_of_phase", "advance")  # classes whose instances are listed, not drawn
STRUCTURED = ("extreme", "out_of_phase")


class Rig:
    name = ""
    fixed = True  # the channel cannot be closed (fixed CID / HCI)
    transport = "le"
    classes = mu.GENERIC
    settle = 0.2  # virtual seconds run after each injected unit
    allow_stream = True  # the victim's host may be fed through a PacketParser
    phased = False  # the reference transaction has several steps: class "advance" = its next in-order step

    def __init__(self, rng):
        self.rng = rng
        self.net = None
        self.rx = []  # frames seen by the attacking side on the channel under test
        self.closed_by_harness = False
        self.ident = 0x20
        self.victim_exceptions = []
        self.forwarding = False  # the attacking device's own upper layers take part (during the probe only)
        self.txn_open = False  # a reference transaction started by the injected units has not been abandoned
        self.adv_step = 0  # in-order steps of the reference transaction made so far
        self.flavour = None  # which variant of the reference transaction "advance" follows
        self.last_label = ""
        self.use_errors = []  # harness failures inside a "use" script
        self.use_tasks = []
        self.stage = ""  # the part of the probe that is running (names what failed)

    # --- construction
    async def setup(self):
        self.net = rig.Net(2, seed=self.rng.getrandbits(30))
        if self.transport == "classic":
            rig.enable_classic(self.net)
        self.attacker = self.net[0]
        self.victim = self.net[1]
        # in half of the runs the victim's host sits behind a stream transport: what its controller sends goes
        # through a real PacketParser (the transport boundary where exceptions of the stack are contained)
        self.stream_fed = self.allow_stream and self.rng.random() < 0.5
        if self.stream_fed:
            from bumble.transport.common import PacketParser

            st = self.net.stacks[1]
            self.parser = PacketParser(st.host)
            st.tap.line_c2h.deliver = self.parser.feed_data
        self.prepare_victim()
        await self.net.power_on()
        if self.transport == "classic":
            self.ac, self.vc = await self.net.connect_classic(0, 1)
        else:
            self.ac, self.vc = await self.net.connect_le(0, 1)
        self.vhandle = self.vc.handle
        self._tap_attacker()
        await self.open_channel()

    def prepare_victim(self):
        pass

    async def open_channel(self):
        pass

    def _tap_attacker(self):
        """record every L2CAP frame reaching the attacking device; keep its own upper layers out of the
        conversation on fixed channels (they would talk back to the victim)"""
        mgr = self.attacker.l2cap_channel_manager
        orig = mgr.on_pdu
        self.frames = []  # (cid, pdu)

        def on_pdu(connection, cid, pdu):
            self.frames.append((cid, bytes(pdu)))
            if self.forward_to_attacker_stack(cid):
                orig(connection, cid, pdu)

        mgr.on_pdu = on_pdu

    def forward_to_attacker_stack(self, cid):
        return self.forwarding

    # --- generic services
    def next_ident(self):
        self.ident = self.ident % 250 + 1
        return self.ident

    def send_raw(self, cid, data):
        self.ac.send_l2cap_pdu(cid, data)

    @property
    def sig_cid(self):
        return l2cap.L2CAP_SIGNALING_CID if self.transport == "classic" else l2cap.L2CAP_LE_SIGNALING_CID

    def send_unit(self, unit):
        for target, data in unit:
            if target == "chan":
                self.send_chan(data)
            elif target == "sig":
                self.send_raw(self.sig_cid, data)
            elif target == "use":
                self.start_use(data)
            else:
                raise RigError(f"unknown target {target}")

    # --- normal use of what a unit negotiated: a script of well-formed PDUs that follows the victim's answers
    def start_use(self, data):
        async def guarded():
            try:
                await self.use(bytes(data))
            except Exception as e:  # the harness' own script failed: machinery, reported by c17_run
                self.use_errors.append(e)

        self.use_tasks.append(asyncio.get_running_loop().create_task(guarded()))

    async def use(self, data):
        raise RigError(f"{self.name}: no 'use' script")

    async def until(self, pred, timeout=0.12, step=0.01):
        """poll inside the watchdog window of the unit (virtual time; a unit is given `settle` seconds)"""
        t = 0.0
        while t <= timeout:
            r = pred()
            if r:
                return r
            await asyncio.sleep(step)
            t += step
        return None

    def sig_frames_all(self):
        return [p for c, p in self.frames if c == self.sig_cid]

    def sig_reply(self, ident, codes):
        """the victim's signalling reply with this identifier (None while there is none)"""
        for p in reversed(self.sig_frames_all()):
            if len(p) >= 4 and p[1] == ident and p[0] in codes:
                return p
        return None

    # --- reference transactions of the peer that the injected units may have started
    def starts_txn(self, unit):
        """do these bytes contain a well-formed step of the channel's reference transaction (read from the bytes)"""
        return False

    async def abandon(self):
        """give up the transaction in progress by the ordinary procedure of the protocol"""

    def send_chan(self, data):
        raise NotImplementedError

    def conn_alive(self):
        return self.vhandle in self.victim.connections

    def chan_open(self):
        return True

    async def reopen(self):
        return True

    def begin_unit(self, cls):
        """called before a unit of class cls is sent (generated or replayed)"""

    def stale(self):
        """the channel has no delimiter to resynchronise on and a unit that may end inside an SDU was sent on it: probe on a fresh channel"""
        return False

    def disc_of(self, cls, unit):
        """which valid disconnect (if any) the bytes of this unit are: none / chan / conn"""
        return "none"

    async def probe(self):
        raise NotImplementedError

    async def wait_for(self, pred, timeout=5.0, step=0.05):
        """poll in virtual time"""
        t = 0.0
        while t < timeout:
            r = pred()
            if r:
                return r
            await asyncio.sleep(step)
            t += step
        return pred()

    # --- fault classes
    def corpus(self):
        raise NotImplementedError

    def len_fields(self, pdu):
        return ()

    def pick(self):
        c = self._corpus if hasattr(self, "_corpus") else None
        if c is None:
            c = self._corpus = self.corpus()
            if len(c) < 4:
                raise RigError(f"{self.name}: corpus of valid PDUs too small ({len(c)})")
        return self.rng.choice(c)[1]

    def instances(self, cls):
        """enumerated classes: [(label, builder -> unit, continues)], the same list (same order) for every rig of this
        channel whatever the connection state: builders are only called by gen()"""
        cache = self.__dict__.setdefault("_instances", {})
        if cls not in cache:
            fn = getattr(self, "inst_" + cls, None)
            if fn is None:
                raise RigError(f"{self.name}: no instance list for the enumerated class {cls}")
            lst = []
            for item in fn():
                label, build = item[0], item[1]
                lst.append((label, build, bool(item[2]) if len(item) > 2 else False))
            if not lst:
                raise RigError(f"{self.name}: empty instance list for class {cls}")
            if len({l for l, _, _ in lst}) != len(lst):
                raise RigError(f"{self.name}: duplicate instance labels in class {cls}")
            cache[cls] = lst
        return cache[cls]

    def gen(self, cls, variant=None):
        """-> unit = list of (target, bytes)"""
        self.last_label = ""
        if cls in mu.GENERIC and cls in self.classes:
            pdu = self.pick()
            return [("chan", mu.generic(cls, self.rng, pdu, self.len_fields(pdu)))]
        if cls in ENUMERATED:
            inst = self.instances(cls)
            i = self.rng.randrange(len(inst)) if variant is None else variant % len(inst)
            label, build, _ = inst[i]
            for attempt in range(30):
                try:  # (other fields are drawn: a draw bumble's own class refuses is drawn again)
                    unit = build()
                    break
                except RigError:
                    raise
                except Exception as e:
                    err = e
            else:
                raise RigError(f"{self.name}: instance {label} of class {cls} cannot be built: {type(err).__name__}: {err}")
            if cls != "advance":
                self.last_label = label
        else:
            fn = getattr(self, "gen_" + cls, None)
            if fn is None:
                raise RigError(f"{self.name}: no generator for fault class {cls}")
            unit = fn()
        if isinstance(unit, (bytes, bytearray)):
            unit = [("chan", bytes(unit))]
        return unit

    # "advance": the flavours of the reference transaction; which step comes next is the rig's state
    def inst_advance(self):
        return [(f, (lambda f=f: self.advance(f))) for f in self.flavours]

    flavours = ("default",)

    def advance(self, flavour):
        if self.flavour is None:
            self.flavour = flavour
        unit = self.advance_step(self.flavour, self.adv_step)
        self.last_label = f"{self.flavour}:step{self.adv_step}"
        self.adv_step += 1
        return unit

    def advance_step(self, flavour, step):
        raise RigError(f"{self.name}: not a phased channel")


def sig_len_fields(pdu):
    return ((2, 2, "little"),)


# ----------------------------------------------------------------------------- LE fixed channels
class AttRig(Rig):
    name = "att"
    classes = mu.GENERIC + ("att_unknown_op", "att_server_pdu") + STRUCTURED + ("advance",)
    phased = True  # reference transaction with several steps: a queued write (Prepare Write* / Execute Write)

    def prepare_victim(self):
        self.ro = Characteristic(UUID("0000C171-0000-1000-8000-00805F9B34FB"), Characteristic.Properties.READ,
                                 Characteristic.READABLE, PROBE_VALUE)
        self.rw = Characteristic(UUID("0000C172-0000-1000-8000-00805F9B34FB"),
                                 Characteristic.Properties.READ | Characteristic.Properties.WRITE | Characteristic.Properties.NOTIFY,
                                 Characteristic.READABLE | Characteristic.WRITEABLE, b"scratch")
        self.victim.add_service(Service(UUID("0000C170-0000-1000-8000-00805F9B34FB"), [self.ro, self.rw]))

    def send_chan(self, data):
        self.send_raw(att.ATT_CID, data)

    def handles(self):
        if not hasattr(self, "ro"):  # (a rig that is only asked for its instance lists)
            return (0, 1, 2, 3, 4, 5, 6, 0xFFFF)
        return (0, 1, 2, 3, self.ro.handle, self.rw.handle, self.rw.handle + 1, 0xFFFF)

    def corpus(self):
        req = [c for c in _classes(att, "ATT_", skip=("ATT_PDU", "ATT_Error")) if not c.__name__.endswith("Response")
               and "Notification" not in c.__name__ and "Indication" not in c.__name__]
        return build_corpus(req, self.rng, per_class=3, ints=self.handles())

    def gen_att_unknown_op(self):
        op = self.rng.choice([0x00, 0x14, 0x15, 0x1A, 0x1C, 0x1F, 0x22, 0x3A, 0x3F, 0x7F, 0xBF, 0xFF, 0x54, 0x92])
        return bytes([op]) + mu.rand_bytes(self.rng, self.rng.choice([0, 1, 2, 4, 20]))

    def gen_att_server_pdu(self):
        rsp = [c for c in _classes(att, "ATT_", skip=("ATT_PDU", "ATT_Error")) if c.__name__.endswith("Response")
               or "Notification" in c.__name__ or "Indication" in c.__name__]
        c = build_corpus(rsp, self.rng, per_class=1, ints=self.handles())
        return self.rng.choice(c)[1]

    def request_classes(self):
        return [c for c in _classes(att, "ATT_", skip=("ATT_PDU", "ATT_Error")) if not c.__name__.endswith("Response")
                and "Notification" not in c.__name__ and "Indication" not in c.__name__]

    def server_classes(self):
        return [c for c in _classes(att, "ATT_", skip=("ATT_PDU", "ATT_Error")) if c.__name__.endswith("Response")
                or "Notification" in c.__name__ or "Indication" in c.__name__]

    def inst_extreme(self):
        """every numeric field of every request (handles, offsets, the MTU, flags) at 0 / 1 / max; the normal use of
        what an Exchange MTU negotiated is the reference transaction itself (read, write, notification)"""
        out = []
        for label, build in field_extremes(self.request_classes(), self.rng, ints=self.handles()):
            out.append((label, build, label.startswith("ATT_Prepare_Write_Request")))
        return out

    def inst_out_of_phase(self):
        """PDUs that only a server sends, a confirmation without an indication, Execute Write without a queue"""
        import random as _random

        out = []
        for c in self.server_classes():
            try:
                auto_build(c, _random.Random(0), ints=self.handles())
            except Exception:
                continue  # bumble's own class cannot be built with generic values
            out.append((c.__name__, lambda c=c: bytes(auto_build(c, self.rng, ints=self.handles()))))
        out.append(("ATT_Execute_Write_Request:commit:empty_queue", lambda: bytes(att.ATT_Execute_Write_Request(flags=1))))
        out.append(("ATT_Execute_Write_Request:cancel:empty_queue", lambda: bytes(att.ATT_Execute_Write_Request(flags=0))))
        return out

    def advance_step(self, flavour, step):
        # a queued write on the writable characteristic: Prepare Write Request, part by part
        return bytes(att.ATT_Prepare_Write_Request(attribute_handle=self.rw.handle, value_offset=4 * step, part_attribute_value=mu.rand_bytes(self.rng, 4)))

    def starts_txn(self, unit):
        return any(t == "chan" and d[:1] == b"\x16" and len(d) >= 5 for t, d in unit)

    async def abandon(self):
        self.send_chan(bytes(att.ATT_Execute_Write_Request(flags=0)))  # cancel all prepared writes
        await asyncio.sleep(0.3)

    async def att_probe(self, send, received):
        """the complete use of the bearer: a read AND a write (read back) AND a notification"""
        self.stage = "read"
        ok, why = await self.att_read_probe(send, received)
        if not ok:
            return ok, why
        from bumble import gatt

        self.stage = "write"
        self.n_probe = getattr(self, "n_probe", 0) + 1
        new = b"C17-w%d" % self.n_probe
        n0 = len(received())
        send(bytes(att.ATT_Write_Request(attribute_handle=self.rw.handle, attribute_value=new)))
        got = await self.wait_for(lambda: [p for p in received()[n0:] if p[:1] in (b"\x13", b"\x01")])
        if not got or got[0] != b"\x13":
            return False, f"Write Request(handle={self.rw.handle}) not answered with a Write Response; frames since: {[p.hex() for p in received()[n0:]][:4]}"
        n0 = len(received())
        send(bytes(att.ATT_Read_Request(attribute_handle=self.rw.handle)))
        got = await self.wait_for(lambda: [p for p in received()[n0:] if p[:1] in (b"\x0b", b"\x01")])
        if not got or got[0] != b"\x0b" + new:
            return False, f"the value just written ({new!r}) is not what a Read Request returns: {[p.hex() for p in received()[n0:]][:4]}"
        self.stage = "notification"
        cccd = self.victim.gatt_server.get_descriptor_attribute(UUID("0000C170-0000-1000-8000-00805F9B34FB"), self.rw.uuid,
                                                                gatt.GATT_CLIENT_CHARACTERISTIC_CONFIGURATION_DESCRIPTOR)
        if cccd is None:
            raise RigError("att: the server has no CCCD for the notifying characteristic")
        n0 = len(received())
        send(bytes(att.ATT_Write_Request(attribute_handle=cccd.handle, attribute_value=b"\x01\x00")))
        got = await self.wait_for(lambda: [p for p in received()[n0:] if p[:1] in (b"\x13", b"\x01")])
        if not got or got[0] != b"\x13":
            return False, f"subscribing (Write Request to the CCCD, handle {cccd.handle}) not answered with a Write Response: {[p.hex() for p in received()[n0:]][:4]}"
        n0 = len(received())
        note = b"C17-n%d" % self.n_probe
        try:
            await asyncio.wait_for(self.victim.notify_subscribers(self.rw, value=note), 10)
        except Exception as e:
            return False, f"the victim application's notify_subscribers() ended with {type(e).__name__}: {e}"
        want = b"\x1b" + struct.pack("<H", self.rw.handle) + note
        got = await self.wait_for(lambda: [p for p in received()[n0:] if p[:1] == b"\x1b"])
        if not got or got[0] != want:
            return False, f"the subscribed peer did not receive the notification {want.hex()}; frames since: {[p.hex() for p in received()[n0:]][:4]}"
        return True, ""

    async def att_read_probe(self, send, received):
        n0 = len(received())
        send(bytes(att.ATT_Read_Request(attribute_handle=self.ro.handle)))
        got = await self.wait_for(lambda: [p for p in received()[n0:] if p[:1] == bytes([0x0B])])
        if not got:
            return False, f"no Read Response to Read Request(handle={self.ro.handle}); frames since: {[p.hex() for p in received()[n0:]][:4]}"
        # the value the victim application holds now (a well-formed Write Request among the injected units may have
        # changed it: whether that write should have been permitted is C11's business); long values are cut to the MTU
        value = bytes(self.ro.value) if isinstance(self.ro.value, (bytes, bytearray)) else PROBE_VALUE
        body = got[0][1:]
        if body != value[: len(body)] or len(body) < min(len(value), 22):
            return False, f"Read Response {got[0].hex()} does not carry the attribute value {value.hex()}"
        return True, ""

    async def probe(self):
        return await self.att_probe(self.send_chan, lambda: [p for c, p in self.frames if c == att.ATT_CID])


SMP_SIZES = {0x01: 6, 0x02: 6, 0x03: 16, 0x04: 16, 0x05: 1, 0x06: 16, 0x07: 10, 0x08: 16, 0x09: 7, 0x0A: 16, 0x0B: 1, 0x0C: 64,
             0x0D: 16, 0x0E: 1}
SMP_NAMES = {0x01: "pairing_request", 0x02: "pairing_response", 0x03: "pairing_confirm", 0x04: "pairing_random", 0x05: "pairing_failed",
             0x06: "encryption_information", 0x07: "master_identification", 0x08: "identity_information",
             0x09: "identity_address_information", 0x0A: "signing_information", 0x0B: "security_request", 0x0C: "public_key",
             0x0D: "dhkey_check", 0x0E: "keypress_notification"}


class SmpRig(Rig):
    name = "smp"
    classes = mu.GENERIC + ("smp_unknown_code", "smp_out_of_order") + STRUCTURED + ("advance",)
    phased = True
    flavours = ("legacy", "sc")

    def prepare_victim(self):
        from bumble.pairing import PairingConfig

        self.attacker_sc = True
        self.victim.pairing_config_factory = lambda connection: PairingConfig(sc=True, mitm=False, bonding=True)
        self.attacker.pairing_config_factory = lambda connection: PairingConfig(sc=self.attacker_sc, mitm=False, bonding=True)
        self.preq = None

    def send_chan(self, data):
        self.send_raw(smp.SMP_CID, data)

    def smp_rx(self):
        return [p for c, p in self.frames if c == smp.SMP_CID]

    def corpus(self):
        return build_corpus(_classes(smp, "SMP_", skip=("SMP_Command",)), self.rng, per_class=2, ints=(0, 1, 3, 4, 7, 16))

    def gen_smp_unknown_code(self):
        return bytes([self.rng.choice([0x00, 0x0F, 0x10, 0x55, 0xFF])]) + mu.rand_bytes(self.rng, self.rng.choice([0, 1, 6, 16]))

    def gen_smp_out_of_order(self):
        # well-formed commands that make no sense without the preceding pairing phases
        r = self.rng
        return r.choice([
            bytes(smp.SMP_Pairing_Random_Command(random_value=mu.rand_bytes(r, 16))),
            bytes(smp.SMP_Pairing_DHKey_Check_Command(dhkey_check=mu.rand_bytes(r, 16))),
            bytes(smp.SMP_Pairing_Public_Key_Command(public_key_x=mu.rand_bytes(r, 32), public_key_y=mu.rand_bytes(r, 32))),
            bytes(smp.SMP_Pairing_Confirm_Command(confirm_value=mu.rand_bytes(r, 16))),
            bytes(smp.SMP_Encryption_Information_Command(long_term_key=mu.rand_bytes(r, 16))),
            bytes(smp.SMP_Pairing_Response_Command(io_capability=3, oob_data_flag=0, auth_req=1, maximum_encryption_key_size=16,
                                                   initiator_key_distribution=7, responder_key_distribution=7)),
        ])

    # --- the reference transaction, step by step (the attacking side is the initiator, raw PDUs)
    def pairing_request(self, sc, **kw):
        f = dict(io_capability=3, oob_data_flag=0, auth_req=0x09 if sc else 0x01, maximum_encryption_key_size=16,
                 initiator_key_distribution=1, responder_key_distribution=1)
        f.update(kw)
        return bytes(smp.SMP_Pairing_Request_Command(**f))

    def note_request(self, pdu, flavour=None):
        """a Pairing Request is going out: the steps that follow continue this pairing"""
        self.preq = bytes(pdu)
        self.flavour = flavour or ("sc" if len(pdu) > 3 and pdu[3] & 0x08 else "legacy")
        self.adv_step = 1
        self.n_rx0 = len(self.smp_rx()) if self.net else 0

    def advance_step(self, flavour, step):
        from bumble import crypto

        r = self.rng
        if step == 0:
            pdu = self.pairing_request(flavour == "sc")
            self.note_request(pdu, flavour)
            self.adv_step = 0  # (advance() counts)
            return pdu
        since = self.smp_rx()[getattr(self, "n_rx0", 0):]
        if flavour == "legacy":
            if step == 1:
                # Pairing Confirm: c1 over the request, the victim's Pairing Response and the addresses (TK = 0)
                pres = next((p for p in since if p[:1] == b"\x02" and len(p) == 7), None)
                self.legacy_r = mu.rand_bytes(r, 16)
                confirm = mu.rand_bytes(r, 16)
                if pres is not None and self.preq:
                    ia = self.ac.self_resolvable_address or self.ac.self_address
                    ra = self.ac.peer_resolvable_address or self.ac.peer_address
                    confirm = crypto.c1(bytes(16), self.legacy_r, self.preq, pres, 1 if ia.is_random else 0, 1 if ra.is_random else 0,
                                        bytes(ia), bytes(ra))
                return bytes(smp.SMP_Pairing_Confirm_Command(confirm_value=confirm))
            if step == 2:
                return bytes(smp.SMP_Pairing_Random_Command(random_value=getattr(self, "legacy_r", None) or mu.rand_bytes(r, 16)))
            return bytes(smp.SMP_Encryption_Information_Command(long_term_key=mu.rand_bytes(r, 16)))
        if step == 1:
            self.ecc = crypto.EccKey.generate()
            return bytes(smp.SMP_Pairing_Public_Key_Command(public_key_x=self.ecc.x[::-1], public_key_y=self.ecc.y[::-1]))
        if step == 2:
            return bytes(smp.SMP_Pairing_Random_Command(random_value=mu.rand_bytes(r, 16)))
        return bytes(smp.SMP_Pairing_DHKey_Check_Command(dhkey_check=mu.rand_bytes(r, 16)))

    def starts_txn(self, unit):
        return any(t == "chan" and d[:1] == b"\x01" and len(d) >= 7 for t, d in unit)

    async def abandon(self):
        self.send_chan(bytes(smp.SMP_Pairing_Failed_Command(reason=smp.ErrorCode.UNSPECIFIED_REASON)))
        await asyncio.sleep(0.5)

    # --- enumerated classes
    def inst_out_of_phase(self):
        """every command code of the protocol with its payload size: all zero / random; a point of the curve"""
        from bumble import crypto

        out = []
        for code, n in SMP_SIZES.items():
            if code == 0x01:
                out.append(("pairing_request:legacy", lambda: self._req(False), True))
                out.append(("pairing_request:sc", lambda: self._req(True), True))
                continue
            out.append((f"{SMP_NAMES[code]}:zeros", lambda code=code, n=n: bytes([code]) + bytes(n)))
            out.append((f"{SMP_NAMES[code]}:random", lambda code=code, n=n: bytes([code]) + mu.rand_bytes(self.rng, n)))
        def point():
            k = crypto.EccKey.generate()
            return bytes(smp.SMP_Pairing_Public_Key_Command(public_key_x=k.x[::-1], public_key_y=k.y[::-1]))

        out.append(("public_key:on_curve", point))
        return out

    def _req(self, sc, **kw):
        pdu = self.pairing_request(sc, **kw)
        self.note_request(pdu)
        return pdu

    def inst_extreme(self):
        out = []
        for fl, auth in (("legacy", 0x01), ("sc", 0x09)):
            pinned = {"SMP_Pairing_Request_Command": dict(io_capability=3, oob_data_flag=0, auth_req=auth, maximum_encryption_key_size=16,
                                                          initiator_key_distribution=1, responder_key_distribution=1)}
            for label, build in field_extremes([smp.SMP_Pairing_Request_Command], self.rng, prefix=fl + ":", fixed=pinned):
                def b(build=build):
                    pdu = build()
                    self.note_request(pdu)
                    return pdu

                out.append((label, b, True))
        others = [c for c in _classes(smp, "SMP_", skip=("SMP_Command", "SMP_Pairing_Request_Command"))]
        out += field_extremes(others, self.rng, ints=(0, 1, 3, 4, 7, 16))
        return out

    # --- probe: the complete transaction, twice: a legacy pairing and a Secure Connections pairing, each run to its
    # end (keys on both sides) by the attacking device's own Security Manager on the same connection
    async def pair_once(self, sc):
        self.attacker_sc = sc
        what = "Secure Connections" if sc else "legacy"
        vkeys, akeys, vfail = [], [], []
        on_v = lambda keys: vkeys.append(keys)
        on_a = lambda keys: akeys.append(keys)
        on_f = lambda reason: vfail.append(reason)
        self.vc.on("pairing", on_v)
        self.ac.on("pairing", on_a)
        self.vc.on("pairing_failure", on_f)
        n0 = len(self.smp_rx())
        try:
            try:
                await asyncio.wait_for(self.ac.pair(), 45)
            except asyncio.TimeoutError:
                return False, (f"a {what} pairing started by the peer on the same connection never completes (pair() still waiting after 45 s; "
                               f"victim sent {[p.hex()[:16] for p in self.smp_rx()[n0:]][:6]})")
            except Exception as e:
                return False, f"a {what} pairing started by the peer on the same connection failed: {type(e).__name__}: {e}"
            await self.wait_for(lambda: vkeys or vfail, timeout=5.0)
        finally:
            self.vc.remove_listener("pairing", on_v)
            self.ac.remove_listener("pairing", on_a)
            self.vc.remove_listener("pairing_failure", on_f)
        has = lambda k: any(getattr(k, n, None) is not None for n in ("ltk", "ltk_central", "ltk_peripheral"))
        if not vkeys or not has(vkeys[0]):
            return False, f"after the {what} pairing the victim reported no keys (pairing event missing{', pairing_failure ' + str(vfail[0]) if vfail else ''})"
        if not akeys or not has(akeys[0]):
            return False, f"after the {what} pairing the initiator has no keys"
        if sc and vkeys[0].ltk is not None and akeys[0].ltk is not None and vkeys[0].ltk.value != akeys[0].ltk.value:
            return False, "the two sides hold different LTKs after the Secure Connections pairing"
        return True, ""

    async def probe(self):
        self.forwarding = True
        order = (False, True) if self.rng.random() < 0.5 else (True, False)
        for i, sc in enumerate(order):
            self.stage = ("first-pairing", "second-pairing")[i]
            ok, why = await self.pair_once(sc)
            if not ok:
                return False, why
            await asyncio.sleep(0.5)
        return True, ""


LE_SERVER_PSM = 0x0085  # an LE credit based server / a classic server of the victim, with an echoing application, that
CL_SERVER_PSM = 0x1003  # only the well-formed classes (extreme, advance) and the probe address

# the configuration options of an L2CAP Configuration Request (Vol 3, Part A, 5): name, option type, format, fields
CONFIG_LAYOUT = (("mtu", 0x01, "<H", ("mtu",)), ("flush_timeout", 0x02, "<H", ("flush_timeout",)), ("fcs", 0x05, "<B", ("fcs",)),
                 ("rfc", 0x04, "<BBBHHH", ("mode", "tx_window", "max_transmit", "retransmission_timeout", "monitor_timeout", "mps")))


class SigRig(Rig):
    """signalling channel of the link (fixed CID 1 / 5)"""
    classes = mu.GENERIC + ("sig_unknown_code", "sig_multi", "sig_unsolicited_rsp") + STRUCTURED
    settle = 0.3

    @property
    def cid(self):
        return l2cap.L2CAP_SIGNALING_CID if self.transport == "classic" else l2cap.L2CAP_LE_SIGNALING_CID

    def send_chan(self, data):
        self.send_raw(self.cid, data)

    def len_fields(self, pdu):
        return sig_len_fields(pdu)

    def frame_classes(self):
        return _classes(l2cap, "L2CAP_", base=l2cap.L2CAP_Control_Frame)

    def corpus(self):
        return build_corpus(self.frame_classes(), self.rng, per_class=2, ints=(0, 1, 2, 0x40, 0x41, 0x80, 0xF1, 23, 0xFFFF))

    def gen_sig_unknown_code(self):
        code = self.rng.choice([0x00, 0x0C, 0x0D, 0x0E, 0x0F, 0x10, 0x11, 0x1B, 0x30, 0x7F, 0xFF])
        data = mu.rand_bytes(self.rng, self.rng.choice([0, 2, 4, 8]))
        return bytes([code, self.next_ident()]) + struct.pack("<H", len(data)) + data

    def gen_sig_multi(self):
        # several commands packed in one C-frame (legal on BR/EDR, not on LE)
        return b"".join(self.pick() for _ in range(self.rng.randint(2, 4)))

    def response_classes(self):
        return [c for c in self.frame_classes() if c.__name__.endswith("Response") or c.__name__ in ("L2CAP_Command_Reject", "L2CAP_LE_Flow_Control_Credit")]

    def gen_sig_unsolicited_rsp(self):
        return self.rng.choice(build_corpus(self.response_classes(), self.rng, per_class=1, ints=(0, 1, 0x40, 0x41, 0xFFFF)))[1]

    def sig_frames(self):
        return [p for c, p in self.frames if c == self.cid]

    def next_scid(self):
        """source CIDs of channels opened with raw PDUs: away from the ones the attacking device's own stack allocates"""
        self.scid = getattr(self, "scid", 0x005F) + 1
        if self.scid > 0x007E:
            self.scid = 0x0060
        return self.scid

    def inst_out_of_phase(self):
        """every response of the protocol without a request; requests that name channels that do not exist"""
        import random as _random

        out = []
        ints = (0, 1, 0x40, 0x41, 0x70, 0xFFFF)
        for c in self.response_classes():
            try:
                auto_build(c, _random.Random(0), ints=ints)
            except Exception:
                continue
            out.append((c.__name__, lambda c=c: bytes(auto_build(c, self.rng, ints=ints))))
        out.append(("L2CAP_Configure_Request:unknown_channel", lambda: bytes(l2cap.L2CAP_Configure_Request(
            identifier=self.next_ident(), destination_cid=0x0077, flags=0, options=b"\x01\x02\x30\x00"))))
        out.append(("L2CAP_Disconnection_Request:unknown_channel", lambda: bytes(l2cap.L2CAP_Disconnection_Request(
            identifier=self.next_ident(), destination_cid=0x0077, source_cid=0x0078))))
        out.append(("L2CAP_Credit_Based_Reconfigure_Request:unknown_channel", lambda: bytes(l2cap.L2CAP_Credit_Based_Reconfigure_Request(
            identifier=self.next_ident(), mtu=64, mps=64, destination_cid=[0x0077]))))
        return out

    def pinned(self):
        return {}

    def accepted(self, label):
        """does this instance open a channel on the victim's server (then: normal use of it)"""
        return None

    def inst_extreme(self):
        """every numeric field of every signalling command at 0 / 1 / max; a request the victim's server accepts is followed
        by normal use of the channel it opens (data both ways, credits)"""
        out = []
        requests = [c for c in self.frame_classes() if not c.__name__.endswith("Response") and c.__name__ != "L2CAP_Command_Reject"]
        for label, build in field_extremes(requests, self.rng, fixed=self.pinned(), ints=(0, 1, 2, 0x50, 0x51, 0x80, 23)):
            kind = self.accepted(label)
            if kind:
                out.append((label, lambda build=build, kind=kind, label=label: self.open_and_use(self.own_scid(build(), label), kind), self.phased))
            else:
                out.append((label, build))
        return out

    def own_scid(self, request, label):
        """the source CID of a channel opened with raw PDUs is one the attacking device's own stack does not allocate
        (unless it is the field under test)"""
        if ".source_cid=" in label or len(request) < 8:
            return request
        return request[:6] + struct.pack("<H", self.next_scid()) + request[8:]

    def open_and_use(self, request, kind, options=b""):
        # the request carries the identifier and the source CID the 'use' script needs
        return [("chan", request), ("use", kind + request[1:2] + options)]


class LeSigRig(SigRig):
    name = "le_sig"

    def prepare_victim(self):
        self.victim_channels = []

        def on_channel(ch):
            self.victim_channels.append(ch)
            ch.sink = lambda sdu: ch.write(b"echo:" + sdu)

        self.victim.create_l2cap_server(l2cap.LeCreditBasedChannelSpec(psm=LE_SERVER_PSM, mtu=256, mps=64, max_credits=32), on_channel)

    def pinned(self):
        return {"L2CAP_LE_Credit_Based_Connection_Request": dict(le_psm=LE_SERVER_PSM, mtu=64, mps=32, initial_credits=3)}

    def accepted(self, label):
        return b"L" if label.startswith("L2CAP_LE_Credit_Based_Connection_Request.") and ".le_psm=" not in label else None

    async def use(self, data):
        """normal use of an LE credit based channel just negotiated: an SDU to the victim (within its MTU / MPS / credits), credits for
        the victim the ordinary way, another SDU; the victim application echoes each, i.e. transmits under OUR MTU / MPS / credits"""
        ident = data[1]
        req = next((p for t, p in reversed(self.sent_sig) if len(p) >= 14 and p[0] == 0x14 and p[1] == ident), None)
        rsp = await self.until(lambda: self.sig_reply(ident, (0x15, 0x01)))
        if req is None or rsp is None or rsp[0] != 0x15 or len(rsp) < 14:
            return
        dcid, vmtu, vmps, vcredits, result = struct.unpack_from("<HHHHH", rsp, 4)
        if result != 0:
            return  # refused: the victim is free to
        scid = struct.unpack_from("<H", req, 6)[0]
        sdu = b"C17-use"[: max(0, min(vmtu, vmps - 2))]
        if vcredits > 0:
            self.send_raw(dcid, struct.pack("<H", len(sdu)) + sdu)
        await asyncio.sleep(0.03)
        self.send_chan(bytes(l2cap.L2CAP_LE_Flow_Control_Credit(identifier=self.next_ident(), cid=scid, credits=4)))
        await asyncio.sleep(0.03)
        if vcredits > 1:
            self.send_raw(dcid, struct.pack("<H", len(sdu)) + sdu)

    def send_chan(self, data):
        self.__dict__.setdefault("sent_sig", []).append(("chan", bytes(data)))
        super().send_chan(data)

    async def probe(self):
        self.stage = "unknown-spsm"
        ident = self.next_ident()
        n0 = len(self.sig_frames())
        req = l2cap.L2CAP_LE_Credit_Based_Connection_Request(identifier=ident, le_psm=0x00F1, source_cid=0x0070, mtu=64, mps=64, initial_credits=1)
        self.send_chan(bytes(req))
        got = await self.wait_for(lambda: [p for p in self.sig_frames()[n0:] if len(p) >= 2 and p[1] == ident])
        if not got:
            return False, f"LE Credit Based Connection Request (id {ident}) got no reply; frames since: {[p.hex() for p in self.sig_frames()[n0:]][:4]}"
        p = got[0]
        # unknown SPSM: response 0x15 with result 0x0002 (SPSM not supported)
        if p[0] != 0x15 or len(p) != 14 or struct.unpack_from("<H", p, 12)[0] != 0x0002:
            return False, f"reply to a request for an unregistered SPSM is {p.hex()}, expected LE Credit Based Connection Response with result 0x0002"
        # the complete transaction: a channel opened by the attacking device's own stack on the victim's server, SDUs larger
        # than the MPS both ways, the channel closed
        self.stage = "open-channel"
        self.forwarding = True
        try:
            ch = await asyncio.wait_for(self.ac.create_l2cap_channel(l2cap.LeCreditBasedChannelSpec(psm=LE_SERVER_PSM, mtu=256, mps=64, max_credits=32)), 20)
        except Exception as e:
            return False, f"an LE credit based channel could not be opened on the victim's server: {type(e).__name__}: {e}"
        self.stage = "channel-data"
        sdus = []
        ch.sink = lambda sdu: sdus.append(bytes(sdu))
        payload = b"C17-" + bytes(range(200))
        ch.write(payload)
        await self.wait_for(lambda: sdus, timeout=10)
        if sdus[:1] != [b"echo:" + payload]:
            return False, f"a {len(payload)}-byte SDU written on the new channel was not echoed correctly by the victim application: {[x[:16] for x in sdus[:2]]}"
        self.stage = "close-channel"
        try:
            await asyncio.wait_for(ch.disconnect(), 20)
        except Exception as e:
            return False, f"the new channel could not be closed: {type(e).__name__}: {e}"
        return True, ""


class ClassicSigRig(SigRig):
    name = "classic_sig"
    transport = "classic"
    classes = SigRig.classes + ("advance",)
    phased = True

    def prepare_victim(self):
        self.victim_channels = []

        def on_channel(ch):
            self.victim_channels.append(ch)
            ch.sink = lambda sdu: ch.write(b"echo:" + sdu)

        self.victim.create_l2cap_server(l2cap.ClassicChannelSpec(psm=CL_SERVER_PSM), on_channel)

    def send_chan(self, data):
        self.__dict__.setdefault("sent_sig", []).append(("chan", bytes(data)))
        super().send_chan(data)

    def pinned(self):
        return {"L2CAP_Connection_Request": dict(psm=CL_SERVER_PSM)}

    def accepted(self, label):
        return b"C" if label.startswith("L2CAP_Connection_Request.") and ".psm=" not in label else None

    def connection_request(self):
        return bytes(l2cap.L2CAP_Connection_Request(identifier=self.next_ident(), psm=CL_SERVER_PSM, source_cid=self.next_scid()))

    def inst_extreme(self):
        out = super().inst_extreme()
        # every field of every configuration option of a Configuration Request for a channel just opened, then the channel is used
        for name, otype, fmt, fields in CONFIG_LAYOUT:
            sizes = struct.Struct(fmt)
            for k, f in enumerate(fields):
                top = (1 << (8 * struct.calcsize("<" + fmt[1 + k]))) - 1
                for v, txt in ((0, "0"), (1, "1"), (top, "max")):
                    def build(otype=otype, sizes=sizes, k=k, v=v, fields=fields):
                        vals = [0] * len(fields)
                        if len(fields) > 1:
                            vals = [0, 1, 1, 2000, 12000, 64]  # basic mode, plausible values elsewhere
                        vals[k] = v
                        opt = sizes.pack(*vals)
                        return self.open_and_use(self.connection_request(), b"C", bytes([otype, len(opt)]) + opt)

                    out.append((f"Configure.{name}.{f}={txt}", build, True))
        return out

    def conn_response(self, ident):
        rsp = self.sig_reply(ident, (0x03,))
        if rsp is None or len(rsp) < 12:
            return None
        dcid, scid, result, status = struct.unpack_from("<HHHH", rsp, 4)
        return (dcid, scid) if result == 0 else None

    async def use(self, data):
        """normal use of a channel just requested: configure it both ways (our Configuration Request carries the options under
        test, the victim's is accepted), send data, let the victim application echo it"""
        ident, opts = data[1], data[2:] or b"\x01\x02\x00\x04"
        got = await self.until(lambda: self.conn_response(ident))
        if not got:
            return
        dcid, scid = got
        cfg_ident = self.next_ident()
        self.send_chan(bytes(l2cap.L2CAP_Configure_Request(identifier=cfg_ident, destination_cid=dcid, flags=0, options=opts)))
        vreq = await self.until(lambda: next((p for p in self.sig_frames_all() if len(p) >= 8 and p[0] == 0x04 and struct.unpack_from("<H", p, 4)[0] == scid), None))
        if vreq:
            self.send_chan(bytes(l2cap.L2CAP_Configure_Response(identifier=vreq[1], source_cid=dcid, flags=0, result=0, options=b"")))
        await self.until(lambda: self.sig_reply(cfg_ident, (0x05, 0x01)))
        self.send_raw(dcid, b"C17-use-1")
        await asyncio.sleep(0.03)
        self.send_raw(dcid, b"C17-use-2" * 8)

    def advance_step(self, flavour, step):
        if step == 0:
            pdu = self.connection_request()
            self.adv_ident = pdu[1]
            return pdu
        got = self.conn_response(getattr(self, "adv_ident", 0))
        dcid, scid = got if got else (0x0077, getattr(self, "scid", 0x0060))
        if step == 1:
            return bytes(l2cap.L2CAP_Configure_Request(identifier=self.next_ident(), destination_cid=dcid, flags=0, options=b"\x01\x02\x00\x04"))
        if step == 2:
            vreq = next((p for p in self.sig_frames_all() if len(p) >= 8 and p[0] == 0x04 and struct.unpack_from("<H", p, 4)[0] == scid), None)
            return bytes(l2cap.L2CAP_Configure_Response(identifier=vreq[1] if vreq else self.next_ident(), source_cid=dcid, flags=0, result=0, options=b""))
        return [("sig", bytes(l2cap.L2CAP_Echo_Request(identifier=self.next_ident(), data=b"C17-step")))]

    def starts_txn(self, unit):
        return any(t in ("chan", "sig") and len(d) >= 8 and d[0] == 0x02 and struct.unpack_from("<H", d, 4)[0] == CL_SERVER_PSM for t, d in unit)

    async def abandon(self):
        # close every channel the injected units opened on the victim's server: Disconnection Request, the ordinary way
        for p in list(self.sig_frames_all()):
            if len(p) >= 12 and p[0] == 0x03 and struct.unpack_from("<H", p, 8)[0] == 0:
                dcid, scid = struct.unpack_from("<HH", p, 4)
                if 0x0060 <= scid <= 0x007E:
                    self.send_chan(bytes(l2cap.L2CAP_Disconnection_Request(identifier=self.next_ident(), destination_cid=dcid, source_cid=scid)))
        await asyncio.sleep(0.3)

    async def probe(self):
        self.stage = "echo"
        ident = self.next_ident()
        n0 = len(self.sig_frames())
        data = b"C17-echo"
        self.send_chan(bytes(l2cap.L2CAP_Echo_Request(identifier=ident, data=data)))
        want = bytes(l2cap.L2CAP_Echo_Response(identifier=ident, data=data))
        got = await self.wait_for(lambda: [p for p in self.sig_frames()[n0:] if p[:2] == want[:2]])
        if not got:
            return False, f"Echo Request (id {ident}) got no Echo Response; frames since: {[p.hex() for p in self.sig_frames()[n0:]][:4]}"
        if got[0] != want:
            return False, f"Echo Response {got[0].hex()} != {want.hex()}"
        # the complete transaction: a channel opened (connection + configuration both ways) by the attacking device's own
        # stack on the victim's server, data both ways, the channel closed
        self.stage = "open-channel"
        self.forwarding = True
        try:
            ch = await asyncio.wait_for(self.ac.create_l2cap_channel(l2cap.ClassicChannelSpec(psm=CL_SERVER_PSM)), 20)
        except Exception as e:
            return False, f"an L2CAP channel could not be opened on the victim's server: {type(e).__name__}: {e}"
        self.stage = "channel-data"
        rx = []
        ch.sink = lambda sdu: rx.append(bytes(sdu))
        payload = b"C17-" + bytes(range(200))
        ch.write(payload)
        await self.wait_for(lambda: rx, timeout=10)
        if rx[:1] != [b"echo:" + payload]:
            return False, f"{len(payload)} bytes written on the new channel were not echoed correctly by the victim application: {[x[:16] for x in rx[:2]]}"
        self.stage = "close-channel"
        try:
            await asyncio.wait_for(ch.disconnect(), 20)
        except Exception as e:
            return False, f"the new channel could not be closed: {type(e).__name__}: {e}"
        return True, ""


# ----------------------------------------------------------------------------- dynamic L2CAP channels
class DynRig(Rig):
    """a dynamic L2CAP channel opened by the attacking side with bumble's own channel manager; garbage is
    sent raw on the victim's CID of that channel"""
    fixed = False
    transport = "classic"
    psm = 0
    classes = mu.GENERIC + ("chan_disc",)

    def forward_to_attacker_stack(self, cid):
        return True  # the attacking side needs its signalling / channel state machines

    async def open_l2cap(self):
        self.chan = await asyncio.wait_for(self.ac.create_l2cap_channel(l2cap.ClassicChannelSpec(psm=self.psm)), 10)
        self.chan.sink = lambda pdu: self.rx.append(bytes(pdu))
        self.closed_by_harness = False

    async def open_channel(self):
        await self.open_l2cap()

    def send_chan(self, data):
        self.ac.send_l2cap_pdu(self.chan.destination_cid, data)

    def l2cap_open(self):
        return self.chan.state == l2cap.ClassicChannel.State.OPEN

    def chan_open(self):
        return not self.closed_by_harness and self.l2cap_open()

    async def reopen(self):
        if self.l2cap_open() and self.closed_by_harness:
            self.chan.abort()  # the victim has (been asked to) close it; forget it locally
        try:
            await self.open_channel()
        except Exception as e:  # the legitimate procedure failed on the victim side
            self.reopen_error = f"{type(e).__name__}: {e}"
            return False
        return True

    def gen_chan_disc(self):
        # a valid L2CAP Disconnection Request for the channel under test
        self.closed_by_harness = True
        req = l2cap.L2CAP_Disconnection_Request(identifier=self.next_ident(), destination_cid=self.chan.destination_cid, source_cid=self.chan.source_cid)
        return [("sig", bytes(req))]

    def disc_of(self, cls, unit):
        return "chan" if cls == "chan_disc" else "none"


class SdpRig(DynRig):
    name = "sdp"
    psm = sdp.SDP_PSM
    classes = DynRig.classes + ("sdp_nest_deep", "sdp_nest_siblings", "sdp_size_lie", "sdp_bad_continuation") + STRUCTURED

    def record(self):
        return [
            (sdp.SDP_SERVICE_RECORD_HANDLE_ATTRIBUTE_ID, sdp.DataElement.unsigned_integer_32(SDP_HANDLE)),
            (sdp.SDP_SERVICE_CLASS_ID_LIST_ATTRIBUTE_ID, sdp.DataElement.sequence([sdp.DataElement.uuid(SDP_UUID)])),
            (sdp.SDP_BROWSE_GROUP_LIST_ATTRIBUTE_ID, sdp.DataElement.sequence([sdp.DataElement.uuid(sdp.SDP_PUBLIC_BROWSE_ROOT)])),
            (0x0100, sdp.DataElement.text_string(b"C17 reference service with a name long enough to need a continuation")),
        ]

    def prepare_victim(self):
        self.victim.sdp_server.service_records.update({SDP_HANDLE: [sdp.ServiceAttribute(i, v) for i, v in self.record()]})

    def request_classes(self):
        return [c for c in _classes(sdp, "SDP_", skip=("SDP_PDU",)) if c.__name__.endswith("Request")]

    def inst_extreme(self):
        """every numeric field of every request (record counts, byte counts, record handle) at 0 / 1 / max in a request that
        matches the victim's record; the length byte of the continuation state"""
        pattern = sdp.DataElement.sequence([sdp.DataElement.uuid(SDP_UUID)])
        ids = sdp.DataElement.sequence([sdp.DataElement.unsigned_integer_32(0x0000FFFF)])
        pinned = {
            "SDP_ServiceSearchRequest": dict(service_search_pattern=pattern, maximum_service_record_count=10, continuation_state=b"\x00"),
            "SDP_ServiceAttributeRequest": dict(service_record_handle=SDP_HANDLE, maximum_attribute_byte_count=100, attribute_id_list=ids,
                                                continuation_state=b"\x00"),
            "SDP_ServiceSearchAttributeRequest": dict(service_search_pattern=pattern, maximum_attribute_byte_count=100, attribute_id_list=ids,
                                                      continuation_state=b"\x00"),
        }
        out = field_extremes(self.request_classes(), self.rng, fixed=pinned)
        for n, t in ((0, "0"), (1, "1"), (16, "max")):
            def build(n=n):
                params = bytes(pattern) + struct.pack(">H", 100) + bytes(ids) + bytes([n]) + mu.rand_bytes(self.rng, n)
                return b"\x06" + struct.pack(">HH", self.rng.randint(1, 0xFFF0), len(params)) + params

            out.append((f"continuation_state.length={t}", build))
        return out

    def inst_out_of_phase(self):
        """PDUs only a server sends; a continuation of a response that was never started"""
        import random as _random

        out = []
        for c in _classes(sdp, "SDP_", skip=("SDP_PDU",)):
            if c.__name__.endswith("Request"):
                continue
            try:
                auto_build(c, _random.Random(0), ints=(0, 1, 10, SDP_HANDLE, 0xFFFF), size=1)
            except Exception:
                continue
            out.append((c.__name__, lambda c=c: bytes(auto_build(c, self.rng, ints=(0, 1, 10, SDP_HANDLE, 0xFFFF), size=1))))
        pattern = bytes(sdp.DataElement.sequence([sdp.DataElement.uuid(SDP_UUID)]))
        def cont():
            params = pattern + struct.pack(">H", 10) + b"\x02\x00\x01"
            return b"\x02" + struct.pack(">HH", 1, len(params)) + params

        out.append(("continuation_without_previous_response", cont))
        return out

    def len_fields(self, pdu):
        return ((3, 2, "big"),)

    def corpus(self):
        return build_corpus(_classes(sdp, "SDP_", skip=("SDP_PDU",)), self.rng, per_class=3, ints=(0, 1, 10, SDP_HANDLE, 0xFFFF), size=1)

    def _request(self, pattern_bytes, pdu_id=None):
        pdu_id = pdu_id or self.rng.choice([0x02, 0x06])
        if pdu_id == 0x02:
            params = pattern_bytes + struct.pack(">H", 10) + b"\x00"
        else:
            params = pattern_bytes + struct.pack(">H", 100) + bytes([0x35, 0x05, 0x0A, 0x00, 0x00, 0xFF, 0xFF]) + b"\x00"
        return bytes([pdu_id]) + struct.pack(">HH", self.rng.randint(0, 0xFFFF), len(params)) + params

    def gen_sdp_nest_deep(self):
        depth = self.rng.choice([9, 17, 33, 64, 200, 400, 1200, 3000])
        return self._request(mu.sdp_nested(depth, width16=self.rng.random() < 0.7))

    def gen_sdp_nest_siblings(self):
        """two requests, as the search pattern / the attribute id list of both request types that carry data elements:
        containers nested a few times the depth any guard allows, and nested beyond what the interpreter's stack holds;
        SEQUENCE only, ALTERNATIVE only or mixed; the siblings before the nested container only, or on both sides"""
        r = self.rng
        unit = []
        for depth in (r.choice([40, 100, 200, 400]), r.choice([700, 1200, 3000])):
            kinds = r.choice([(0x30,), (0x38,), (0x30, 0x38)])
            before, after = r.choice([((1, 1), (0, 0)), ((1, 3), (0, 0)), ((1, 2), (0, 2))])
            nested = mu.sdp_nested_siblings(r, depth, kinds, before, after)
            if r.random() < 0.3:  # as the attribute id list, behind an ordinary search pattern
                pat = bytes(sdp.DataElement.sequence([sdp.DataElement.uuid(SDP_UUID)]))
                params = pat + struct.pack(">H", 100) + nested + b"\x00"
                unit.append(("chan", b"\x06" + struct.pack(">HH", r.randint(0, 0xFFFF), len(params)) + params))
            else:
                unit.append(("chan", self._request(nested)))
        return unit

    def gen_sdp_size_lie(self):
        return self._request(mu.sdp_size_lie(self.rng))

    def gen_sdp_bad_continuation(self):
        pat = bytes(sdp.DataElement.sequence([sdp.DataElement.uuid(SDP_UUID)]))
        cont = self.rng.choice([b"\x01\x00", b"\x02\x00\x01", b"\x10" + bytes(16), b"\x11" + bytes(17), b"\xff", b"\x02\xff\xff", b"\x05\x01"])
        params = pat + struct.pack(">H", 10) + cont
        return b"\x02" + struct.pack(">HH", 1, len(params)) + params

    async def probe(self):
        self.stage = "search"
        tid = self.rng.randint(1, 0xFFF0)
        n0 = len(self.rx)
        req = sdp.SDP_ServiceSearchRequest(transaction_id=tid, service_search_pattern=sdp.DataElement.sequence([sdp.DataElement.uuid(SDP_UUID)]),
                                           maximum_service_record_count=10, continuation_state=b"\x00")
        self.send_chan(bytes(req))
        got = await self.wait_for(lambda: [p for p in self.rx[n0:] if len(p) >= 5 and struct.unpack_from(">H", p, 1)[0] == tid])
        if not got:
            return False, f"ServiceSearchRequest (tid {tid}) not answered; frames since: {[p.hex() for p in self.rx[n0:]][:4]}"
        p = got[0]
        want = b"\x03" + struct.pack(">HH", tid, 9) + struct.pack(">HHI", 1, 1, SDP_HANDLE) + b"\x00"
        if p != want:
            return False, f"ServiceSearchResponse {p.hex()} != {want.hex()}"
        # the complete transaction: all attributes of the record, in as many continuation steps as the small byte count needs
        self.stage = "search-attributes"
        pattern = sdp.DataElement.sequence([sdp.DataElement.uuid(SDP_UUID)])
        ids = sdp.DataElement.sequence([sdp.DataElement.unsigned_integer_32(0x0000FFFF)])
        cont, data = b"\x00", b""
        for step in range(40):
            tid = (tid + 1) & 0xFFFF
            n0 = len(self.rx)
            params = bytes(pattern) + struct.pack(">H", 24) + bytes(ids) + cont
            self.send_chan(b"\x06" + struct.pack(">HH", tid, len(params)) + params)
            got = await self.wait_for(lambda: [p for p in self.rx[n0:] if len(p) >= 5 and struct.unpack_from(">H", p, 1)[0] == tid])
            if not got:
                return False, f"ServiceSearchAttributeRequest (step {step}, continuation {cont.hex()}) not answered; frames since: {[p.hex() for p in self.rx[n0:]][:4]}"
            p = got[0]
            if p[0] != 0x07 or len(p) < 8:
                return False, f"ServiceSearchAttributeRequest (step {step}) answered with {p.hex()}"
            n = struct.unpack_from(">H", p, 5)[0]
            if n > 24 or len(p) < 7 + n + 1:
                return False, f"ServiceSearchAttributeResponse (step {step}) carries {n} bytes (24 allowed) in {p.hex()}"
            data += p[7 : 7 + n]
            cont = p[7 + n :]
            if cont == b"\x00":
                break
        else:
            return False, "the ServiceSearchAttribute transaction does not end (40 continuation steps)"
        want = bytes(sdp.DataElement.sequence([sdp.DataElement.sequence([e for i, v in self.record() for e in (sdp.DataElement.unsigned_integer_16(i), v)])]))
        if data != want:
            return False, f"attribute lists reassembled over the continuation steps {data.hex()} != {want.hex()}"
        return True, ""


def avdtp_header(label, ptype, mtype):
    return bytes([(label & 0xF) << 4 | (ptype & 3) << 2 | (mtype & 3)])


class AvdtpRig(DynRig):
    name = "avdtp"
    psm = avdtp.AVDTP_PSM
    classes = DynRig.classes + ("frag_drop", "frag_dup", "frag_mislabel") + STRUCTURED + ("advance",)
    phased = True  # reference transaction: a stream is configured, opened, started (Set Configuration, Open, Start)
    SBC_CAPS = bytes([0x01, 0x00, 0x07, 0x06, 0x00, 0x00, 0x21, 0x15, 0x02, 0x35])  # media transport; media codec: audio / SBC

    def single(self, signal, payload=b"", mtype=0, label=None):
        return avdtp_header(self.rng.randrange(16) if label is None else label, 0, mtype) + bytes([signal & 0x3F]) + payload

    def seid_byte(self, seid=None):
        return bytes([((self.sink_ep.seid if seid is None else seid) & 0x3F) << 2])

    def set_configuration(self, acp=None, int_seid=1, caps=None):
        return self.single(0x03, self.seid_byte(acp) + self.seid_byte(int_seid) + (self.SBC_CAPS if caps is None else caps))

    def advance_step(self, flavour, step):
        if step == 0:
            return self.set_configuration()
        if step == 1:
            return self.single(0x06, self.seid_byte())  # Open
        if step == 2:
            return self.single(0x07, self.seid_byte())  # Start
        return self.single(0x09, self.seid_byte())  # Suspend

    def starts_txn(self, unit):
        return any(t == "chan" and len(d) >= 4 and d[0] & 0x0F == 0 and d[1] & 0x3F == 0x03 for t, d in unit)

    async def abandon(self):
        self.send_chan(self.single(0x0A, self.seid_byte()))  # Abort: the stream goes back to idle
        await asyncio.sleep(0.3)

    def command_classes(self):
        return [c for c in _classes(avdtp, "", base=avdtp.Message, skip=("Simple_Command", "Simple_Reject")) if c.__name__.endswith("_Command")]

    def inst_extreme(self):
        """every numeric field of every command (SEIDs: 0 / 1 / 63, delays ...) at its boundary values; the length of a service
        capability and the number of signal packets of a fragmented command at 0 / 1 / 255"""
        def to_bytes(m):
            return avdtp_header(self.rng.randrange(16), 0, int(m.message_type)) + bytes([int(m.signal_identifier)]) + bytes(m.payload)

        out = []
        for label, build in field_extremes(self.command_classes(), self.rng, to_bytes=to_bytes, ints=(1, 2, 5)):
            out.append((label, build, label.startswith("Set_Configuration_Command")))
        for n, t in ((0, "0"), (1, "1"), (255, "max")):
            out.append((f"Set_Configuration_Command.capability.length={t}",
                        lambda n=n: self.set_configuration(caps=bytes([0x01, 0x00, 0x07, n]) + mu.rand_bytes(self.rng, min(n, 40))), True))
            out.append((f"START.number_of_signal_packets={t}", lambda n=n: avdtp_header(self.rng.randrange(16), 1, 0) + bytes([0x03, n]) + self.seid_byte()))
        return out

    def inst_out_of_phase(self):
        """every signal as a response (accept / reject) nobody asked for, a general reject, and the stream commands while the
        stream is in another state"""
        out = []
        for sig in range(1, 14):
            out.append((f"signal_{sig}:response_accept", lambda sig=sig: self.single(sig, b"", 2)))
            out.append((f"signal_{sig}:response_reject", lambda sig=sig: self.single(sig, b"\x04\x31"[: 2 if sig in (3, 5, 7, 9) else 1], 3)))
        out.append(("general_reject", lambda: self.single(0x3F, b"", 1)))
        for nm, sig in (("get_configuration", 4), ("reconfigure", 5), ("open", 6), ("start", 7), ("close", 8), ("suspend", 9), ("abort", 10),
                        ("delay_report", 13)):
            extra = b"\x00\x10" if sig == 13 else (self.SBC_CAPS[2:] if sig == 5 else b"")
            out.append((f"{nm}:command", lambda sig=sig, extra=extra: self.single(sig, self.seid_byte() + extra)))
        return out

    def prepare_victim(self):
        self.listener = avdtp.Listener.for_device(self.victim)
        self.servers = []

        def on_connection(server):
            self.servers.append(server)
            self.sink_ep = server.add_sink(avdtp.MediaCodecCapabilities(
                media_type=avdtp.MediaType.AUDIO, media_codec_type=a2dp.CodecType.SBC,
                media_codec_information=a2dp.SbcMediaCodecInformation(
                    sampling_frequency=a2dp.SbcMediaCodecInformation.SamplingFrequency.SF_44100,
                    channel_mode=a2dp.SbcMediaCodecInformation.ChannelMode.JOINT_STEREO,
                    block_length=a2dp.SbcMediaCodecInformation.BlockLength.BL_16,
                    subbands=a2dp.SbcMediaCodecInformation.Subbands.S_8,
                    allocation_method=a2dp.SbcMediaCodecInformation.AllocationMethod.LOUDNESS,
                    minimum_bitpool_value=2, maximum_bitpool_value=53)))

        self.listener.on("connection", on_connection)

    def messages(self):
        out = []
        for c in _classes(avdtp, "", base=avdtp.Message, skip=("Simple_Command", "Simple_Reject")):
            for _ in range(2):
                try:
                    m = auto_build(c, self.rng, ints=(0, 1, 2, 5, 0x3F))
                    out.append((c.__name__, int(m.message_type), int(m.signal_identifier), bytes(m.payload)))
                except Exception:
                    continue
        return out

    def corpus(self):
        return [(n, avdtp_header(self.rng.randrange(16), 0, mt) + bytes([sid]) + pl) for n, mt, sid, pl in self.messages()]

    def fragments(self):
        """a well-formed fragmented command: START, CONTINUE*, END"""
        label = self.rng.randrange(16)
        body = bytes([0x04, 0x08]) + b"".join(bytes([cat, 6]) + mu.rand_bytes(self.rng, 6) for cat in (1, 7, 7, 4, 7))  # Set Configuration
        n = self.rng.randint(3, 5)
        size = -(-len(body) // n)
        parts = [body[i : i + size] for i in range(0, len(body), size)]
        n = len(parts)
        frs = [avdtp_header(label, 1, 0) + bytes([0x03, n]) + parts[0]]
        for p in parts[1:-1]:
            frs.append(avdtp_header(label, 2, 0) + p)
        frs.append(avdtp_header(label, 3, 0) + parts[-1])
        return frs

    def gen_frag_drop(self):
        frs = self.fragments()
        del frs[self.rng.randrange(len(frs))]
        if self.rng.random() < 0.3:
            frs = frs[:1]  # a START alone
        return [("chan", f) for f in frs]

    def gen_frag_dup(self):
        frs = self.fragments()
        i = self.rng.randrange(len(frs))
        frs.insert(i, frs[i])
        return [("chan", f) for f in frs]

    def gen_frag_mislabel(self):
        frs = self.fragments()
        i = self.rng.randrange(len(frs))
        b = bytearray(frs[i])
        how = self.rng.randrange(4)
        if how == 0:
            b[0] ^= 0x10 << self.rng.randrange(4)  # transaction label
        elif how == 1:
            b[0] ^= 0x04 << self.rng.randrange(2)  # packet type
        elif how == 2:
            b[0] ^= 1 << self.rng.randrange(2)  # message type
        elif i == 0:
            b[2] = self.rng.choice([0, 1, 2, 255])  # number of signal packets
        else:
            b[0] ^= 0x10
        frs[i] = bytes(b)
        return [("chan", f) for f in frs]

    async def command(self, signal, payload, what):
        label = self.rng.randrange(16)
        n0 = len(self.rx)
        self.send_chan(self.single(signal, payload, label=label))
        got = await self.wait_for(lambda: [p for p in self.rx[n0:] if len(p) >= 2 and p[0] >> 4 == label and p[1] & 0x3F == signal])
        if not got:
            return None, f"AVDTP {what} (label {label}) not answered; frames since: {[p.hex() for p in self.rx[n0:]][:4]}"
        if got[0][0] & 0x0F != 0x02:
            return None, f"AVDTP {what} answered with {got[0].hex()} (not a single-packet Response Accept)"
        return got[0], ""

    async def probe(self):
        self.stage = "discover"
        ok, why = await self.discover_probe()
        if not ok:
            return ok, why
        # the complete transaction: capabilities, a stream configured, its configuration read back, the stream released
        self.stage = "get-capabilities"
        rsp, why = await self.command(0x02, self.seid_byte(), "Get Capabilities")
        if rsp is None:
            return False, why
        if bytes([0x07, 0x06, 0x00, 0x00]) not in rsp[2:]:
            return False, f"Get Capabilities response {rsp.hex()} does not list the SBC media codec capability"
        self.stage = "set-configuration"
        rsp, why = await self.command(0x03, self.seid_byte() + self.seid_byte(1) + self.SBC_CAPS, "Set Configuration")
        if rsp is None:
            return False, why
        self.stage = "get-configuration"
        rsp, why = await self.command(0x04, self.seid_byte(), "Get Configuration")
        if rsp is None:
            return False, why
        if bytes([0x07, 0x06, 0x00, 0x00, 0x21, 0x15, 0x02, 0x35]) not in rsp[2:]:
            return False, f"Get Configuration response {rsp.hex()} does not carry the configuration just set"
        self.stage = "abort"
        rsp, why = await self.command(0x0A, self.seid_byte(), "Abort")
        if rsp is None:
            return False, why
        return True, ""

    async def discover_probe(self):
        label = self.rng.randrange(16)
        n0 = len(self.rx)
        self.send_chan(avdtp_header(label, 0, 0) + b"\x01")  # Discover, single packet
        got = await self.wait_for(lambda: [p for p in self.rx[n0:] if len(p) >= 2 and p[0] >> 4 == label and p[1] & 0x3F == 1])
        if not got:
            return False, f"AVDTP Discover (label {label}) not answered; frames since: {[p.hex() for p in self.rx[n0:]][:4]}"
        p = got[0]
        if p[0] != avdtp_header(label, 0, 2)[0] or len(p) != 4 or p[2] >> 2 != self.sink_ep.seid:
            return False, f"Discover response {p.hex()} is not Response Accept listing SEID {self.sink_ep.seid}"
        return True, ""


def avctp_header(label, ptype, cr, ipid=0):
    return bytes([(label & 0xF) << 4 | (ptype & 3) << 2 | (cr & 1) << 1 | (ipid & 1)])


class AvctpRig(DynRig):
    name = "avctp"
    psm = avctp.AVCTP_PSM
    classes = DynRig.classes + ("frag_drop", "frag_dup", "frag_mislabel", "avctp_bad_pid") + STRUCTURED
    PID = 0x110E

    # field layout of an AV/C frame in an AVCTP single packet (AV/C Digital Interface Command Set 5.3; AVRCP 6.3):
    # ctype(4 bits) | subunit type(5) subunit id(3) | opcode(8) | operands
    def avc(self, ctype=0, subunit_type=9, subunit_id=0, opcode=0x7C, operands=b"\x44\x00", cr=0, label=None):
        frame = bytes([ctype & 0x0F, (subunit_type & 0x1F) << 3 | (subunit_id & 7), opcode & 0xFF]) + operands
        return avctp_header(self.rng.randrange(16) if label is None else label, 0, cr) + struct.pack(">H", self.PID) + frame

    def vendor(self, company=0x001958, pdu_id=0x10, packet_type=0, length=None, params=b"\x03", **kw):
        body = company.to_bytes(3, "big") + bytes([pdu_id & 0xFF, packet_type & 0xFF]) + struct.pack(">H", len(params) if length is None else length) + params
        return self.avc(opcode=0x00, operands=body, ctype=kw.pop("ctype", 1), **kw)

    def inst_extreme(self):
        out = []
        for name, top in (("ctype", 0x0F), ("subunit_type", 0x1F), ("subunit_id", 7), ("opcode", 0xFF)):
            for v, t in ((0, "0"), (1, "1"), (top, "max")):
                out.append((f"AVC.{name}={t}", lambda name=name, v=v: self.avc(**{name: v})))
        for v, t in ((0, "0"), (1, "1"), (0x7F, "max")):
            out.append((f"PASS_THROUGH.operation_id={t}", lambda v=v: self.avc(operands=bytes([v, 0]))))
        for n, t in ((0, "0"), (1, "1"), (255, "max")):
            out.append((f"PASS_THROUGH.operation_data_length={t}", lambda n=n: self.avc(operands=bytes([0x44, n]) + mu.rand_bytes(self.rng, n))))
        for v, t in ((0, "0"), (1, "1"), (0xFFFFFF, "max")):
            out.append((f"VENDOR_DEPENDENT.company_id={t}", lambda v=v: self.vendor(company=v)))
        for v, t in ((0, "0"), (1, "1"), (0xFF, "max")):
            out.append((f"VENDOR_DEPENDENT.pdu_id={t}", lambda v=v: self.vendor(pdu_id=v)))
            out.append((f"VENDOR_DEPENDENT.packet_type={t}", lambda v=v: self.vendor(packet_type=v)))
        for n, t in ((0, "0"), (1, "1"), (500, "max")):
            out.append((f"VENDOR_DEPENDENT.parameter_length={t}", lambda n=n: self.vendor(params=mu.rand_bytes(self.rng, n))))
        return out

    def inst_out_of_phase(self):
        """every AV/C response code in a response nobody asked for (PASS THROUGH and VENDOR DEPENDENT), with and without the
        response bit of AVCTP"""
        out = []
        for code in range(0x8, 0x10):
            out.append((f"PASS_THROUGH:response_{code:x}", lambda code=code: self.avc(ctype=code, cr=1)))
            out.append((f"VENDOR_DEPENDENT:response_{code:x}", lambda code=code: self.vendor(ctype=code, cr=1)))
        out.append(("PASS_THROUGH:command_with_response_bit", lambda: self.avc(ctype=0, cr=1)))
        out.append(("PASS_THROUGH:response_without_response_bit", lambda: self.avc(ctype=0x9, cr=0)))
        return out

    def prepare_victim(self):
        self.avrcp = avrcp.Protocol()
        self.avrcp.listen(self.victim)

    def avc_frames(self):
        r = self.rng
        out = [
            bytes(avc.PassThroughCommandFrame(avc.CommandFrame.CommandType.CONTROL, avc.Frame.SubunitType.PANEL, 0,
                                              avc.PassThroughFrame.StateFlag.PRESSED, avc.PassThroughFrame.OperationId.PLAY, b"")),
            bytes(avc.PassThroughCommandFrame(avc.CommandFrame.CommandType.CONTROL, avc.Frame.SubunitType.PANEL, 0,
                                              avc.PassThroughFrame.StateFlag.RELEASED, avc.PassThroughFrame.OperationId.VOLUME_UP, b"\x01")),
        ]
        for cmd in (avrcp.GetCapabilitiesCommand(capability_id=avrcp.GetCapabilitiesCommand.CapabilityId.EVENTS_SUPPORTED),
                    avrcp.GetPlayStatusCommand(), avrcp.SetAbsoluteVolumeCommand(volume=r.randrange(128)),
                    avrcp.RegisterNotificationCommand(event_id=avrcp.EventId.VOLUME_CHANGED, playback_interval=0),
                    avrcp.GetElementAttributesCommand(identifier=0, attribute_ids=[avrcp.MediaAttributeId.TITLE])):
            pdu = bytes([int(cmd.pdu_id), 0]) + struct.pack(">H", len(bytes(cmd))) + bytes(cmd)
            out.append(bytes(avc.VendorDependentCommandFrame(r.choice([avc.CommandFrame.CommandType.STATUS, avc.CommandFrame.CommandType.CONTROL,
                                                                       avc.CommandFrame.CommandType.NOTIFY]),
                                                             avc.Frame.SubunitType.PANEL, 0, 0x001958, pdu)))
        # responses sent to a target
        out.append(bytes(avc.PassThroughResponseFrame(avc.ResponseFrame.ResponseCode.ACCEPTED, avc.Frame.SubunitType.PANEL, 0,
                                                      avc.PassThroughFrame.StateFlag.PRESSED, avc.PassThroughFrame.OperationId.PLAY, b"")))
        return out

    def corpus(self):
        out = []
        for i, f in enumerate(self.avc_frames()):
            cr = 1 if i == 7 else 0
            out.append((f"avc{i}", avctp_header(self.rng.randrange(16), 0, cr) + struct.pack(">H", self.PID) + f))
        return out

    def len_fields(self, pdu):
        # AV/C vendor dependent: company id(3) pdu id(1) packet type(1) parameter length(2) after avctp(3)+avc(3)
        return ((3 + 3 + 5, 2, "big"),) if len(pdu) > 13 and pdu[5] == 0x00 else ()

    def fragments(self):
        label = self.rng.randrange(16)
        body = self.rng.choice(self.avc_frames()) + mu.rand_bytes(self.rng, self.rng.randint(8, 40))
        n = self.rng.randint(3, 5)
        size = -(-len(body) // n)
        parts = [body[i : i + size] for i in range(0, len(body), size)]
        n = len(parts)
        frs = [avctp_header(label, 1, 0) + bytes([n]) + struct.pack(">H", self.PID) + parts[0]]
        for p in parts[1:-1]:
            frs.append(avctp_header(label, 2, 0) + p)
        frs.append(avctp_header(label, 3, 0) + parts[-1])
        return frs

    gen_frag_drop = AvdtpRig.gen_frag_drop
    gen_frag_dup = AvdtpRig.gen_frag_dup

    def gen_frag_mislabel(self):
        frs = self.fragments()
        i = self.rng.randrange(len(frs))
        b = bytearray(frs[i])
        how = self.rng.randrange(4)
        if how == 0:
            b[0] ^= 0x10 << self.rng.randrange(4)
        elif how == 1:
            b[0] ^= 0x04 << self.rng.randrange(2)
        elif how == 2:
            b[0] ^= 1 << self.rng.randrange(2)  # C/R or IPID
        elif i == 0:
            b[1] = self.rng.choice([0, 1, 2, 255])
        else:
            b[0] ^= 0x20
        frs[i] = bytes(b)
        return [("chan", f) for f in frs]

    def gen_avctp_bad_pid(self):
        pid = self.rng.choice([0x0000, 0x110C, 0x1234, 0xFFFF])
        return avctp_header(self.rng.randrange(16), 0, self.rng.randrange(2), self.rng.randrange(2)) + struct.pack(">H", pid) + self.rng.choice(self.avc_frames())

    async def probe(self):
        self.stage = "pass-through"
        label = self.rng.randrange(16)
        n0 = len(self.rx)
        cmd = avc.PassThroughCommandFrame(avc.CommandFrame.CommandType.CONTROL, avc.Frame.SubunitType.PANEL, 0,
                                          avc.PassThroughFrame.StateFlag.PRESSED, avc.PassThroughFrame.OperationId.PLAY, b"")
        self.send_chan(avctp_header(label, 0, 0) + struct.pack(">H", self.PID) + bytes(cmd))
        got = await self.wait_for(lambda: [p for p in self.rx[n0:] if len(p) >= 3 and p[0] >> 4 == label and p[0] & 2])
        if not got:
            return False, f"AV/C PASS THROUGH command (label {label}) not answered; frames since: {[p.hex() for p in self.rx[n0:]][:4]}"
        p = got[0]
        want = avctp_header(label, 0, 1) + struct.pack(">H", self.PID) + bytes(avc.PassThroughResponseFrame(
            avc.ResponseFrame.ResponseCode.ACCEPTED, avc.Frame.SubunitType.PANEL, 0, avc.PassThroughFrame.StateFlag.PRESSED,
            avc.PassThroughFrame.OperationId.PLAY, b""))
        if p != want:
            return False, f"PASS THROUGH response {p.hex()} != {want.hex()}"
        # ... and the other half of what a controller relies on: an AVRCP vendor dependent command (GetCapabilities)
        self.stage = "vendor-dependent"
        label = (label + 1) & 0x0F
        n0 = len(self.rx)
        self.send_chan(self.vendor(label=label))
        got = await self.wait_for(lambda: [p for p in self.rx[n0:] if len(p) >= 3 and p[0] >> 4 == label and p[0] & 2])
        if not got:
            return False, f"AVRCP GetCapabilities command (label {label}) not answered; frames since: {[p.hex() for p in self.rx[n0:]][:4]}"
        p = got[0]
        if len(p) < 13 or p[1:3] != struct.pack(">H", self.PID) or p[5] != 0x00 or p[6:9] != b"\x00\x19\x58" or p[9] != 0x10:
            return False, f"GetCapabilities answered with {p.hex()} (not a VENDOR DEPENDENT response for PDU 0x10)"
        return True, ""


# ----------------------------------------------------------------------------- RFCOMM and the AT streams
def rfcomm_fcs_ok(frame):
    """independent check (TS 07.10): FCS over address+control(+length for non-UIH)"""
    if len(frame) < 4:
        return False
    n = 2 if frame[1] & 0xEF == 0xEF else (3 if frame[2] & 1 else 4)
    fcs = 0xFF
    for b in frame[:n]:
        fcs ^= b
        for _ in range(8):
            fcs = (fcs >> 1) ^ 0xE0 if fcs & 1 else fcs >> 1
    return (0xFF - fcs) == frame[-1]


# the numeric fields of an RFCOMM Parameter Negotiation (TS 07.10 5.4.6.3.1 / RFCOMM 5.5.3): name, largest value
PN_LAYOUT = (("cl", 0xFF), ("priority", 0xFF), ("ack_timer", 0xFF), ("max_frame_size", 0xFFFF), ("max_retransmissions", 0xFF),
             ("initial_credits", 7))
MSC_LAYOUT = (("fc", 1), ("rtc", 1), ("rtr", 1), ("ic", 1), ("dv", 1))


class RfcommRig(DynRig):
    name = "rfcomm"
    psm = rfcomm.RFCOMM_PSM
    classes = DynRig.classes + ("rfc_len_ea", "rfc_bad_fcs", "rfc_unknown_dlci", "rfc_mcc", "rfc_disc") + STRUCTURED + ("advance",)
    phased = True
    settle = 0.3

    def prepare_victim(self):
        self.victim_dlcs = []
        self.server = rfcomm.Server(self.victim)
        self.channel_number = self.server.listen(self.on_victim_dlc)
        # two more server channels with the same kind of application: one the probe opens a DLC on, one the
        # injected units negotiate (PN with boundary values) and then use
        self.channel_probe = self.server.listen(self.on_side_dlc)
        self.channel_raw = self.server.listen(self.on_side_dlc)

    def on_victim_dlc(self, dlc):
        self.victim_dlcs.append(dlc)
        dlc.sink = lambda data: dlc.write(b"echo:" + data)

    def on_side_dlc(self, dlc):
        dlc.sink = lambda data: dlc.write(b"echo:" + data)

    # --- raw frames of a well-behaved initiator for the server channel `channel_raw`
    @property
    def raw_dlci(self):
        return self.channel_raw << 1

    def pn_command(self, dlci=None, **kw):
        f = dict(dlci=self.raw_dlci if dlci is None else dlci, cl=0xF0, priority=7, ack_timer=0, max_frame_size=100, max_retransmissions=0,
                 initial_credits=7)
        f.update(kw)
        pn = bytes([f["dlci"] & 0xFF, f["cl"] & 0xFF, f["priority"] & 0xFF, f["ack_timer"] & 0xFF, f["max_frame_size"] & 0xFF,
                    (f["max_frame_size"] >> 8) & 0xFF, f["max_retransmissions"] & 0xFF, f["initial_credits"] & 0xFF])
        F = rfcomm.RFCOMM_Frame
        return bytes(F.uih(1, 0, F.make_mcc(rfcomm.MccType.PN, 1, pn)))

    def use_dlc(self, dlci=None):
        """normal use of a DLC just negotiated: open it (SABM), answer nothing else, write on it, grant credits, write again;
        the victim application echoes, i.e. writes on it too (frames sent back to back: an RFCOMM initiator need not wait)"""
        d = self.raw_dlci if dlci is None else dlci
        F = rfcomm.RFCOMM_Frame
        return [("chan", bytes(F.sabm(1, d))), ("chan", bytes(F.uih(1, d, b"C17-use-1\r"))),
                ("chan", bytes(F.uih(1, d, bytes([5]) + b"C17-use-2\r", p_f=1))), ("chan", bytes(F.uih(1, d, b"C17-use-3\r")))]

    def advance_step(self, flavour, step):
        F = rfcomm.RFCOMM_Frame
        d = self.raw_dlci
        if step == 0:
            return self.pn_command()
        if step == 1:
            return bytes(F.sabm(1, d))
        if step == 2:
            return bytes(F.uih(1, d, bytes([3]) + b"C17-step\r", p_f=1))
        return bytes(F.uih(1, d, mu.rand_bytes(self.rng, 8)))

    def starts_txn(self, unit):
        for t, f in unit:
            if t != "chan" or len(f) < 4 or not rfcomm_fcs_ok(f):
                continue
            dlci = f[0] >> 2
            if f[1] & 0xEF == 0x2F and dlci not in (0, self.dlc.dlci):
                return True  # SABM for another DLCI
            if f[1] & 0xEF == 0xEF and dlci == 0 and len(f) >= 6 and f[3] >> 2 == 0x20 and f[3] & 2:
                return True  # PN command
        return False

    async def abandon(self):
        # close whatever DLC the injected units opened or half-opened on the side channel: DISC, the ordinary way
        self.send_chan(bytes(rfcomm.RFCOMM_Frame.disc(1, self.raw_dlci)))
        await asyncio.sleep(0.3)

    def inst_extreme(self):
        F = rfcomm.RFCOMM_Frame
        out = []
        for name, top in PN_LAYOUT:
            for v, txt in ((0, "0"), (1, "1"), (top, "max")):
                out.append((f"PN.{name}={txt}", lambda name=name, v=v: [("chan", self.pn_command(**{name: v}))] + self.use_dlc()))
        # modem status for the DLC under test, every signal bit alone / all set, then use of that DLC
        def msc(**kw):
            f = dict(fc=0, rtc=0, rtr=0, ic=0, dv=0)
            f.update(kw)
            return bytes(F.uih(1, 0, F.make_mcc(rfcomm.MccType.MSC, 1, bytes(rfcomm.RFCOMM_MCC_MSC(self.dlc.dlci, **f)))))

        for name, _ in MSC_LAYOUT:
            out.append((f"MSC.{name}=1", lambda name=name: [("chan", msc(**{name: 1})), ("chan", bytes(F.uih(1, self.dlc.dlci, b"C17-after-msc")))]))
        out.append(("MSC.all=0", lambda: [("chan", msc()), ("chan", bytes(F.uih(1, self.dlc.dlci, b"C17-after-msc")))]))
        out.append(("MSC.all=1", lambda: [("chan", msc(fc=1, rtc=1, rtr=1, ic=1, dv=1)), ("chan", bytes(F.uih(1, self.dlc.dlci, b"C17-after-msc")))]))
        # the credit field of a UIH frame on the open DLC, then data on it
        for v, txt in ((0, "0"), (1, "1"), (255, "max")):
            out.append((f"UIH.credits={txt}", lambda v=v: [("chan", bytes(F.uih(1, self.dlc.dlci, bytes([v]) + b"C17-credit", p_f=1))),
                                                           ("chan", bytes(F.uih(1, self.dlc.dlci, b"C17-after-credit")))]))
        # information field of length 0 / 1 / the largest frame negotiated
        for n, txt in ((0, "0"), (1, "1"), (rfcomm.RFCOMM_DEFAULT_MAX_FRAME_SIZE, "max")):
            out.append((f"UIH.length={txt}", lambda n=n: bytes(F.uih(1, self.dlc.dlci, mu.rand_bytes(self.rng, n)))))
        return out

    def inst_out_of_phase(self):
        """well-formed frames that answer nothing or belong to another state of the DLC / the multiplexer"""
        F = rfcomm.RFCOMM_Frame
        own = lambda: self.dlc.dlci
        raw = lambda: self.raw_dlci
        mcc = lambda t, cr, v: bytes(F.uih(1, 0, F.make_mcc(t, cr, v)))
        pn = lambda d: bytes(rfcomm.RFCOMM_MCC_PN(d, 0xE0, 7, 0, 100, 0, 7))
        msc = lambda d: bytes(rfcomm.RFCOMM_MCC_MSC(d, 0, 1, 1, 0, 1))
        out = []
        for nm, d in (("mux", lambda: 0), ("open_dlc", own), ("closed_dlc", raw)):
            out.append((f"UA:{nm}", lambda d=d: bytes(F.ua(1, d()))))
            out.append((f"DM:{nm}", lambda d=d: bytes(F.dm(1, d()))))
            out.append((f"SABM:{nm}", lambda d=d: bytes(F.sabm(1, d()))))
        out.append(("DISC:closed_dlc", lambda: bytes(F.disc(1, raw()))))
        out.append(("UIH:closed_dlc", lambda: bytes(F.uih(1, raw(), b"C17-nobody"))))
        out.append(("UIH_credits:closed_dlc", lambda: bytes(F.uih(1, raw(), bytes([7]) + b"C17-nobody", p_f=1))))
        out.append(("UIH_credits:mux", lambda: bytes(F.uih(1, 0, bytes([7]), p_f=1))))
        out.append(("PN_response:open_dlc", lambda: mcc(rfcomm.MccType.PN, 0, pn(own()))))
        out.append(("PN_response:closed_dlc", lambda: mcc(rfcomm.MccType.PN, 0, pn(raw()))))
        out.append(("PN_command:open_dlc", lambda: mcc(rfcomm.MccType.PN, 1, pn(own()))))
        out.append(("PN_command:initiator_dlci", lambda: mcc(rfcomm.MccType.PN, 1, pn(raw() | 1))))
        out.append(("MSC_response:open_dlc", lambda: mcc(rfcomm.MccType.MSC, 0, msc(own()))))
        out.append(("MSC_response:closed_dlc", lambda: mcc(rfcomm.MccType.MSC, 0, msc(raw()))))
        out.append(("MSC_command:closed_dlc", lambda: mcc(rfcomm.MccType.MSC, 1, msc(raw()))))
        # multiplexer commands of TS 07.10 every peer may send at any time: Test, FCon, FCoff, RPN, RLS, NSC
        for nm, t, v in (("TEST", 0x08, b"C17"), ("FCON", 0x28, b""), ("FCOFF", 0x18, b""), ("RPN", 0x24, lambda: bytes([own() << 2 | 3])),
                         ("RPN_full", 0x24, lambda: bytes([own() << 2 | 3, 3, 3, 0, 0x11, 0x13, 0x7F, 0x3F])),
                         ("RLS", 0x14, lambda: bytes([own() << 2 | 3, 0])), ("NSC", 0x04, bytes([0x23]))):
            for cr in (1, 0):
                out.append((f"{nm}_{'command' if cr else 'response'}", lambda t=t, v=v, cr=cr: mcc(t, cr, v() if callable(v) else v)))
        return out

    async def open_channel(self):
        self.closed_by_harness = False
        self.client = rfcomm.Client(self.ac)
        self.mux = await asyncio.wait_for(self.client.start(), 10)
        self.chan = self.client.l2cap_channel
        inner = self.chan.sink

        def tee(pdu):
            self.rx.append(bytes(pdu))
            inner(pdu)

        self.chan.sink = tee
        self.dlc = await asyncio.wait_for(self.mux.open_dlc(self.channel_number), 10)
        self.dlc_rx = []
        self.dlc.sink = lambda data: self.dlc_rx.append(bytes(data))

    def chan_open(self):
        return (not self.closed_by_harness and self.l2cap_open() and self.mux.state == rfcomm.Multiplexer.State.CONNECTED
                and self.dlc.state == rfcomm.DLC.State.CONNECTED)

    async def reopen(self):
        # a clean new session: close the L2CAP channel of the old multiplexer, then connect again
        try:
            if self.l2cap_open():
                await asyncio.wait_for(self.chan.disconnect(), 10)
            await self.open_channel()
        except Exception as e:
            self.reopen_error = f"{type(e).__name__}: {e}"
            return False
        return True

    def rfc_frames(self):
        d = self.dlc.dlci
        r = self.rng
        F = rfcomm.RFCOMM_Frame
        out = [F.sabm(1, d ^ 2), F.ua(1, d), F.dm(1, d ^ 4), F.uih(1, d, mu.rand_bytes(r, r.randint(1, 30))),
               F.uih(1, d, bytes([r.randint(0, 20)]) + mu.rand_bytes(r, r.randint(0, 10)), p_f=1), F.uih(1, d, b"", p_f=0),
               F.uih(1, 0, F.make_mcc(rfcomm.MccType.MSC, 1, bytes(rfcomm.RFCOMM_MCC_MSC(d, 0, 1, 1, 0, 1)))),
               F.uih(1, 0, F.make_mcc(rfcomm.MccType.PN, 1, bytes(rfcomm.RFCOMM_MCC_PN(d ^ 2, 0xF0, 7, 0, 100, 0, 7)))),
               F.uih(1, d, mu.rand_bytes(r, 200))]
        return [(f"f{i}", bytes(f)) for i, f in enumerate(out)]

    def corpus(self):
        return self.rfc_frames()

    def len_fields(self, pdu):
        return ((2, 1, "little"),)

    def gen_rfc_len_ea(self):
        d = self.dlc.dlci
        addr = (d << 2) | 2 | 1
        info = mu.rand_bytes(self.rng, self.rng.choice([0, 1, 5, 130]))
        n = len(info)
        how = self.rng.randrange(6)
        if how == 0:  # EA = 0 but only one length byte
            length = bytes([(n << 1) & 0xFE])
        elif how == 1:  # two-byte form for a short payload
            length = bytes([(n & 0x7F) << 1, n >> 7])
        elif how == 2:  # one-byte form that lies
            length = bytes([((n + self.rng.randint(1, 60)) & 0x7F) << 1 | 1])
        elif how == 3:  # two-byte form that lies
            length = bytes([0xFE, 0xFF])
        elif how == 4:  # frame ends inside the length field
            return bytes([addr, 0xEF, 0x00])
        else:  # address byte with EA = 0
            addr &= 0xFE
            length = bytes([n << 1 & 0xFF | 1])
        ctrl = self.rng.choice([0xEF, 0xFF])
        return bytes([addr, ctrl]) + length + info + bytes([rfcomm.compute_fcs(bytes([addr, ctrl]))])

    def gen_rfc_bad_fcs(self):
        f = bytearray(self.pick())
        f[-1] ^= 1 << self.rng.randrange(8)
        return bytes(f)

    def gen_rfc_unknown_dlci(self):
        d = self.rng.choice([1, 5, 9, 30, 61, 62, 63])
        F = rfcomm.RFCOMM_Frame
        return bytes(self.rng.choice([F.uih(1, d, b"hello"), F.disc(1, d), F.ua(1, d), F.uih(1, d, b"\x05x", p_f=1), F.sabm(1, d)]))

    def gen_rfc_mcc(self):
        r = self.rng
        F = rfcomm.RFCOMM_Frame
        mcc = r.choice([
            bytes([r.choice([0x23, 0x13, 0x53, 0x93, 0xE3, 0xFF, 0x01]), 0x01]),  # known / unknown types, no value
            F.make_mcc(rfcomm.MccType.PN, 1, mu.rand_bytes(r, r.choice([0, 3, 7]))),  # PN too short
            F.make_mcc(rfcomm.MccType.MSC, 1, mu.rand_bytes(r, r.choice([0, 1]))),  # MSC too short
            F.make_mcc(rfcomm.MccType.PN, 0, bytes(rfcomm.RFCOMM_MCC_PN(self.dlc.dlci, 0xF0, 7, 0, 100, 0, 7))),  # PN response nobody asked for
            F.make_mcc(rfcomm.MccType.MSC, 1, bytes([(61 << 2) | 3, 0x8D])),  # MSC for a DLCI that does not exist
            bytes([0x83, 0x00, 0x00]),  # two-byte length form
            b"",
        ])
        return bytes(F.uih(1, 0, mcc))

    def gen_rfc_disc(self):
        self.closed_by_harness = True
        d = self.rng.choice([0, self.dlc.dlci])
        return bytes(rfcomm.RFCOMM_Frame.disc(1, d))

    def disc_of(self, cls, unit):
        if cls in ("chan_disc", "rfc_disc"):
            return "chan"
        for target, f in unit:
            if target == "chan" and len(f) >= 4 and f[1] & 0xEF == 0x43 and f[0] & 1 and (f[0] >> 2) in (0, self.dlc.dlci) and rfcomm_fcs_ok(f):
                self.closed_by_harness = True
                return "chan"  # a mutated frame that happens to be a valid DISC
        return "none"

    async def probe(self):
        self.stage = "open-dlc-data"
        n0 = len(self.dlc_rx)
        if self.dlc.state != rfcomm.DLC.State.CONNECTED:
            return False, f"attacking side's DLC is {self.dlc.state.name}"
        self.dlc.write(b"C17-ping")
        got = await self.wait_for(lambda: b"".join(self.dlc_rx[n0:]) == b"echo:C17-ping")
        if not got:
            return False, f"data sent on the open DLC was not echoed by the victim application; received {b''.join(self.dlc_rx[n0:])!r}"
        return await self.probe_new_dlc()

    async def probe_new_dlc(self):
        """the complete transaction: a new DLC negotiated and opened on the same multiplexer (PN, SABM / UA, MSC), data
        larger than one frame exchanged both ways, the DLC closed (DISC / UA)"""
        self.stage = "new-dlc"
        try:
            dlc = await asyncio.wait_for(self.mux.open_dlc(self.channel_probe), 20)
        except Exception as e:
            return False, f"a new DLC could not be opened on the same multiplexer: {type(e).__name__}: {e}"
        rx = []
        dlc.sink = lambda data: rx.append(bytes(data))
        payload = b"C17-" + bytes(range(256)) * 3
        dlc.write(payload)
        want = b"echo:" + payload
        got = await self.wait_for(lambda: len(b"".join(rx)) >= len(want), timeout=10)
        if b"".join(rx) != want:
            return False, (f"{len(payload)} bytes written on a newly opened DLC were not echoed correctly by the victim application: "
                           f"received {len(b''.join(rx))} bytes {b''.join(rx)[:24]!r}..")
        self.stage = "close-dlc"
        try:
            await asyncio.wait_for(dlc.disconnect(), 20)
        except Exception as e:
            return False, f"the new DLC could not be closed: {type(e).__name__}: {e}"
        return True, ""


def ag_configuration():
    return hfp.AgConfiguration(
        supported_ag_features=[hfp.AgFeature.HF_INDICATORS, hfp.AgFeature.IN_BAND_RING_TONE_CAPABILITY, hfp.AgFeature.REJECT_CALL,
                               hfp.AgFeature.CODEC_NEGOTIATION, hfp.AgFeature.ESCO_S4_SETTINGS_SUPPORTED,
                               hfp.AgFeature.ENHANCED_CALL_STATUS, hfp.AgFeature.THREE_WAY_CALLING],
        supported_ag_indicators=[hfp.AgIndicatorState.call(), hfp.AgIndicatorState.service(), hfp.AgIndicatorState.callsetup(),
                                 hfp.AgIndicatorState.callheld(), hfp.AgIndicatorState.signal(), hfp.AgIndicatorState.roam(),
                                 hfp.AgIndicatorState.battchg()],
        supported_hf_indicators=[hfp.HfIndicator.ENHANCED_SAFETY, hfp.HfIndicator.BATTERY_LEVEL],
        supported_ag_call_hold_operations=[hfp.CallHoldOperation.RELEASE_ALL_HELD_CALLS, hfp.CallHoldOperation.RELEASE_ALL_ACTIVE_CALLS,
                                           hfp.CallHoldOperation.HOLD_ALL_ACTIVE_CALLS],
        supported_audio_codecs=[hfp.AudioCodec.CVSD, hfp.AudioCodec.MSBC])


def hf_configuration():
    return hfp.HfConfiguration(
        supported_hf_features=[hfp.HfFeature.CODEC_NEGOTIATION, hfp.HfFeature.ESCO_S4_SETTINGS_SUPPORTED, hfp.HfFeature.HF_INDICATORS,
                               hfp.HfFeature.ENHANCED_CALL_STATUS, hfp.HfFeature.THREE_WAY_CALLING, hfp.HfFeature.CLI_PRESENTATION_CAPABILITY],
        supported_hf_indicators=[hfp.HfIndicator.ENHANCED_SAFETY, hfp.HfIndicator.BATTERY_LEVEL],
        supported_audio_codecs=[hfp.AudioCodec.CVSD, hfp.AudioCodec.MSBC])


AT_CLASSES = ("valid", "trunc", "extend", "bitflip", "random", "at_quote", "at_empty", "at_unknown", "at_arity", "at_nonutf8",
              "at_paren", "at_multi", "chan_disc")


class HfpAgRig(RfcommRig):
    """victim = AgProtocol on the DLC; the attacking side writes raw bytes into the AT stream (through bumble's own
    RFCOMM, i.e. as a well-behaved RFCOMM peer)"""
    name = "hfp_ag"
    classes = AT_CLASSES + STRUCTURED
    phased = False
    TERM = b"\r"

    def on_victim_dlc(self, dlc):
        self.victim_dlcs.append(dlc)
        self.ag = hfp.AgProtocol(dlc, ag_configuration())
        self.ag_events = []
        self.ag.on(self.ag.EVENT_SPEAKER_VOLUME, lambda level: self.ag_events.append(("speaker_volume", level)))

    def starts_txn(self, unit):
        return False

    # AT commands with numeric parameters: name, number of parameters (the layout the boundary values are enumerated from)
    AT_NUMERIC = (("+VGS", 1), ("+VGM", 1), ("+BRSF", 1), ("+CMEE", 1), ("+CHLD", 1), ("+BCS", 1), ("+BAC", 2), ("+BIEV", 2), ("+BIA", 3),
                  ("+CMER", 4), ("+CLIP", 1), ("+CCWA", 1), ("+NREC", 1), ("+BVRA", 1), ("+COPS", 2), ("+VTS", 1), ("+BIND", 2), ("+CKPD", 1),
                  ("+BTRH", 1), ("+BINP", 1))
    AT_DEFAULTS = {"+CMER": [3, 0, 0, 1], "+COPS": [3, 0], "+BAC": [1, 2], "+BIEV": [2, 50], "+BIA": [1, 1, 1], "+BIND": [1, 2]}

    def inst_extreme(self):
        out = []
        for name, n in self.AT_NUMERIC:
            for k in range(n):
                for v, t in ((0, "0"), (1, "1"), (4294967295, "max")):
                    def build(name=name, n=n, k=k, v=v):
                        vals = list(self.AT_DEFAULTS.get(name, [1] * n))
                        vals[k] = v
                        return self.wrap(b"AT" + name.encode() + b"=" + b",".join(str(x).encode() for x in vals))

                    out.append((f"AT{name}.p{k + 1}={t}", build))
        for v, t in ((0, "0"), (1, "1"), (4294967295, "max")):
            out.append((f"ATD>.memory={t}", lambda v=v: self.wrap(b"ATD>" + str(v).encode() + b";")))
        return out

    def inst_out_of_phase(self):
        """well-formed commands of another phase of the connection: codec confirmation without a negotiation, call control without
        a call, service level connection steps again, result codes (which only an AG sends)"""
        lines = [b"AT+BCS=1", b"AT+BCS=2", b"AT+BCC", b"ATA", b"AT+CHUP", b"AT+CHLD=0", b"AT+CHLD=1", b"AT+CHLD=2", b"AT+CHLD=3", b"AT+BTRH=1",
                 b"AT+BLDN", b"AT+BRSF=1023", b"AT+BAC=1", b"AT+CIND=?", b"AT+CMER=3,0,0,0", b"AT+CHLD=?", b"AT+BIND=?", b"AT+BIND?", b"AT+BVRA=0",
                 b"AT+VTS=1", b"OK", b"ERROR", b"+CIEV: 1,1", b"+BCS: 2", b"RING", b"+CME ERROR: 30"]
        return [(l.decode(), lambda l=l: self.wrap(l)) for l in lines]

    async def open_channel(self):
        await super().open_channel()
        self.tail = b""
        # service level connection, by hand
        for line in (b"AT+BRSF=1023\r", b"AT+BAC=1,2\r", b"AT+CIND=?\r", b"AT+CIND?\r", b"AT+CMER=3,0,0,1\r", b"AT+CHLD=?\r"):
            n0 = len(self.dlc_rx)
            self.dlc.write(line)
            ok = await self.wait_for(lambda: b"\r\nOK\r\n" in b"".join(self.dlc_rx[n0:]))
            if not ok:
                raise RigError(f"hfp_ag: service level connection step {line!r} not answered OK: {b''.join(self.dlc_rx[n0:])!r}")

    def send_chan(self, data):
        self.tail = (getattr(self, "tail", b"") + bytes(data))[-4:]
        self.dlc.write(data)

    LINES = [b"AT+BRSF=1023", b"AT+BAC=1,2", b"AT+CIND=?", b"AT+CIND?", b"AT+CMER=3,0,0,1", b"AT+CHLD=?", b"AT+CHLD=1", b"AT+BIND=1,2",
             b"AT+BIND=?", b"AT+BIND?", b"ATA", b"ATD1234567;", b"ATD>1;", b"AT+CHUP", b"AT+VGS=7", b"AT+VGM=15", b"AT+CLCC", b"AT+BIA=1,1,0,,1",
             b"AT+CMEE=1", b"AT+NREC=0", b"AT+BVRA=1", b"AT+CLIP=1", b"AT+CCWA=1", b"AT+COPS=3,0", b"AT+COPS?", b"AT+BIEV=2,90", b"AT+BCS=2",
             b"AT+BCC", b"AT+CNUM", b"AT+VTS=5", b"AT+BLDN", b"AT+BTRH?", b"AT+CKPD=200", b'AT+CPBS="ME"', b"AT+BINP=1"]

    def corpus(self):
        return [(l.decode(), l + self.TERM) for l in self.LINES]

    def line(self):
        return self.rng.choice(self.LINES)

    def wrap(self, text):
        return text + self.TERM

    def gen_at_quote(self):
        r = self.rng
        return self.wrap(r.choice([b'AT+CPBS="ME', b'AT+BINP="', b'AT+VGS="7', b'AT+CMER=3,"0,0,1', b'AT+X=a"b"', b'AT+CIND=""" ,"']))

    def gen_at_empty(self):
        return self.rng.choice([self.TERM, self.TERM * 3, b" " + self.TERM, b"\n" + self.TERM, b"\r\n\r\n"])

    def gen_at_unknown(self):
        r = self.rng
        return self.wrap(r.choice([b"HELLO", b"AT", b"AT+", b"AT+ZZZZ", b"AT+ZZZZ=1", b"ATZ", b"at+cind?", b"AT+cind?", b"AT+C1ND?", b"+CIND?", b"AT-CIND?", b"AT+FOO?", b"AT+FOO=?"]))

    def gen_at_arity(self):
        r = self.rng
        return self.wrap(r.choice([b"AT+CMER=3", b"AT+CMER=3,0,0,1,5,6", b"AT+VGS=", b"AT+VGS=1,2", b"AT+CHLD=", b"AT+BIEV=2", b"AT+BIEV=2,1,1",
                                    b"AT+BRSF=", b"AT+BRSF=a", b"AT+CMEE=1,2,3", b"AT+BIA=", b"AT+BCS=x", b"AT+CHUP=1", b"AT+CLCC=4", b"ATA=1",
                                    b"AT+BAC=", b"AT+BIND=a,b", b"AT+COPS=1", b"AT+CLIP=", b"AT+BVRA=9", b"AT+NREC=", b"AT+VTS=", b"AT+CHLD=9x"]))

    def gen_at_nonutf8(self):
        r = self.rng
        bad = r.choice([b"\xff\xfe", b"\xc3", b"\x80", b"\xe2\x82", b"\xf0\x9f\x98"])
        return self.wrap(r.choice([bad, b"AT+VGS=" + bad, b"AT+" + bad + b"?", b'AT+CPBS="' + bad + b'"', self.line() + bad]))

    def gen_at_paren(self):
        r = self.rng
        return self.wrap(r.choice([b"AT+CMER=1)", b"AT+CMER=(1", b"AT+CMER=((1,2)", b"AT+CIND=a(1)", b"AT+BIA=)(", b"AT+CHLD=(", b"AT+X=())", b"AT+VGS=1(2"]))

    def gen_at_multi(self):
        # several lines, some malformed, in one write
        r = self.rng
        gens = [self.gen_at_unknown, self.gen_at_paren, self.gen_at_nonutf8, self.gen_at_arity, lambda: self.wrap(self.line()), self.gen_at_empty]
        return b"".join(r.choice(gens)() for _ in range(r.randint(2, 4)))

    async def probe(self):
        # if the garbage ended in the middle of a line, the line terminator ends that line first; then the reference
        # request, in a write of its own
        if getattr(self, "tail", b"") and not self.tail.endswith(self.TERM):
            self.dlc.write(self.TERM)
            await asyncio.sleep(0.2)
        self.stage = "query"
        n0 = len(self.dlc_rx)
        self.dlc.write(b"AT+CIND?" + self.TERM)
        import re

        pat = re.compile(rb"\r\n\+CIND: ?\d(,\d)*\r\n\r\nOK\r\n")
        got = await self.wait_for(lambda: pat.search(b"".join(self.dlc_rx[n0:])))
        if not got:
            return False, f"AT+CIND? not answered with +CIND: .. / OK; received {b''.join(self.dlc_rx[n0:])!r}"
        # the rest of a full AT exchange: a command that reaches the application, an unsolicited result code, and a
        # transaction the AG starts (codec negotiation: +BCS / AT+BCS= / OK)
        self.stage = "command-to-application"
        self.n_probe = getattr(self, "n_probe", 0) + 1
        level = 3 + self.n_probe % 10
        n0, e0 = len(self.dlc_rx), len(self.ag_events)
        self.dlc.write(b"AT+VGS=%d" % level + self.TERM)
        got = await self.wait_for(lambda: b"\r\nOK\r\n" in b"".join(self.dlc_rx[n0:]) and self.ag_events[e0:])
        if not got or self.ag_events[e0:][0] != ("speaker_volume", level):
            return False, f"AT+VGS={level} not answered OK / not delivered to the application: received {b''.join(self.dlc_rx[n0:])!r}, events {self.ag_events[e0:]}"
        self.stage = "unsolicited"
        n0 = len(self.dlc_rx)
        self.ag.update_ag_indicator(hfp.AgIndicator.SIGNAL, 1 + self.n_probe % 4)
        want = b"\r\n+CIEV: 5,%d\r\n" % (1 + self.n_probe % 4)
        got = await self.wait_for(lambda: want in b"".join(self.dlc_rx[n0:]))
        if not got:
            return False, f"the AG's indicator update did not reach the peer as {want!r}: received {b''.join(self.dlc_rx[n0:])!r}"
        self.stage = "codec-negotiation"
        n0 = len(self.dlc_rx)
        task = asyncio.get_running_loop().create_task(self.ag.negotiate_codec(hfp.AudioCodec.MSBC))
        got = await self.wait_for(lambda: b"+BCS: 2" in b"".join(self.dlc_rx[n0:]))
        if not got:
            task.cancel()
            return False, f"codec negotiation started by the AG: no +BCS: 2; received {b''.join(self.dlc_rx[n0:])!r}"
        self.dlc.write(b"AT+BCS=2" + self.TERM)
        try:
            await asyncio.wait_for(task, 10)
        except Exception as e:
            return False, f"codec negotiation started by the AG did not complete after AT+BCS=2: {type(e).__name__}: {e}; received {b''.join(self.dlc_rx[n0:])!r}"
        if not await self.wait_for(lambda: b"\r\nOK\r\n" in b"".join(self.dlc_rx[n0:])):
            return False, f"AT+BCS=2 not answered OK: {b''.join(self.dlc_rx[n0:])!r}"
        return True, ""


class HfpHfRig(RfcommRig):
    """victim = HfProtocol (RFCOMM server side here); the attacking side plays a raw AG"""
    name = "hfp_hf"
    classes = AT_CLASSES + STRUCTURED
    phased = False

    def starts_txn(self, unit):
        return False

    # result codes with numeric parameters: name, number of parameters
    RC_NUMERIC = (("+CIEV", 2), ("+VGS", 1), ("+VGM", 1), ("+BCS", 1), ("+BVRA", 1), ("+CME ERROR", 1), ("+BSIR", 1), ("+BRSF", 1), ("+BTRH", 1),
                  ("+CIND", 7), ("+BIND", 2), ("+CHLD", 1), ("+COPS", 2))

    def inst_extreme(self):
        out = []
        for name, n in self.RC_NUMERIC:
            for k in range(n):
                for v, t in ((0, "0"), (1, "1"), (4294967295, "max")):
                    def build(name=name, n=n, k=k, v=v):
                        vals = [1] * n
                        vals[k] = v
                        return self.wrap(name.encode() + b": " + b",".join(str(x).encode() for x in vals))

                    out.append((f"{name}.p{k + 1}={t}", build))
        for v, t in ((0, "0"), (1, "1"), (4294967295, "max")):
            out.append((f"+CLIP.type={t}", lambda v=v: self.wrap(b'+CLIP: "1234567",' + str(v).encode())))
            out.append((f"+CLCC.index={t}", lambda v=v: self.wrap(str(v).encode().join([b"+CLCC: ", b',1,0,0,0,"1234567",129']))))
        return out

    def inst_out_of_phase(self):
        """final result codes without a command, answers to queries nobody made, commands (which only an HF sends)"""
        lines = [b"OK", b"ERROR", b"+CME ERROR: 30", b"NO CARRIER", b"BUSY", b"NO ANSWER", b"DELAYED", b"BLACKLISTED", b"+CIND: 0,1,0,0,3,0,4",
                 b'+CIND: ("call",(0,1)),("service",(0,1))', b"+CHLD: (0,1,2)", b"+BRSF: 1519", b'+COPS: 0,0,"Bumble"', b'+CLCC: 1,1,0,0,0,"1234567",129',
                 b"+BIND: (1,2)", b"+BIND: 1,1", b'+CNUM: ,"5551212",129,,4', b"+BINP: 1234", b"+BTRH: 0", b"+BCS: 1", b"+BCS: 2", b"AT+CIND?", b"AT+BRSF=1023",
                 b"OK\r\n\r\nOK"]
        return [(l.decode(), lambda l=l: self.wrap(l)) for l in lines]

    def on_victim_dlc(self, dlc):
        self.victim_dlcs.append(dlc)
        self.hf = hfp.HfProtocol(dlc, hf_configuration())
        self.hf_events = []
        self.hf.on(self.hf.EVENT_AG_INDICATOR, lambda ind: self.hf_events.append((int(ind.indicator) if isinstance(ind.indicator, int) else str(ind.indicator), ind.current_status)))
        self.hf_task = asyncio.get_running_loop().create_task(self.hf.run())

    CIND_TEST = (b'\r\n+CIND: ("call",(0,1)),("service",(0,1)),("callsetup",(0-3)),("callheld",(0-2)),("signal",(0-5)),'
                 b'("roam",(0,1)),("battchg",(0-5))\r\n')

    async def open_channel(self):
        await super().open_channel()
        self.tail = b""
        self.auto = True
        self.at_seen = []
        self.dlc.sink = self.on_at
        ok = await self.wait_for(lambda: getattr(self.hf, "_slc_initialized", None) or b"AT+CHLD=?" in b"".join(self.at_seen) or self.hf_task.done(), timeout=20)
        await asyncio.sleep(0.5)
        if self.hf_task.done() or not ok:
            raise RigError(f"hfp_hf: service level connection did not complete; HF sent {self.at_seen}")

    def on_at(self, data):
        """a minimal well-behaved AG (the harness' own, not bumble's): answers the HF's commands"""
        self.at_seen.append(bytes(data))
        if not self.auto:
            return
        for line in bytes(data).split(b"\r"):
            line = line.strip()
            if not line:
                continue
            if line.startswith(b"AT+BRSF="):
                self.dlc.write(b"\r\n+BRSF: 1519\r\n\r\nOK\r\n")
            elif line == b"AT+CIND=?":
                self.dlc.write(self.CIND_TEST + b"\r\nOK\r\n")
            elif line == b"AT+CIND?":
                self.dlc.write(b"\r\n+CIND: 0,1,0,0,3,0,4\r\n\r\nOK\r\n")
            elif line == b"AT+CHLD=?":
                self.dlc.write(b"\r\n+CHLD: (0,1,2)\r\n\r\nOK\r\n")
            elif line == b"AT+BIND=?":
                self.dlc.write(b"\r\n+BIND: (1,2)\r\n\r\nOK\r\n")
            elif line == b"AT+BIND?":
                self.dlc.write(b"\r\n+BIND: 1,1\r\n\r\n+BIND: 2,1\r\n\r\nOK\r\n")
            elif line == b"AT+CLCC":
                self.dlc.write(b'\r\n+CLCC: 1,1,0,0,0,"1234567",129\r\n\r\nOK\r\n')
            else:
                self.dlc.write(b"\r\nOK\r\n")

    def send_chan(self, data):
        self.tail = (getattr(self, "tail", b"") + bytes(data))[-4:]
        self.dlc.write(data)

    RESULTS = [b"OK", b"ERROR", b"RING", b"+CIEV: 1,1", b"+CIEV: 5,3", b'+CLIP: "1234567",129', b"+BCS: 2", b"+VGS: 7", b"+VGM: 3", b"+BVRA: 1",
               b"+CME ERROR: 30", b"+CIND: 0,1,0,0,3,0,4", b"+CHLD: (0,1,2)", b"+BRSF: 1519", b'+CCWA: "1234567",129', b'+CLCC: 1,1,0,0,0,"1234567",129',
               b'+COPS: 0,0,"Bumble"', b"+BIND: 1,1", b"+BSIR: 1", b"NO CARRIER", b"BUSY", b'+CNUM: ,"5551212",129,,4', b"+BTRH: 0", b"+BINP: 1234"]

    def wrap(self, text):
        return b"\r\n" + text + b"\r\n"

    def corpus(self):
        return [(l.decode(), self.wrap(l)) for l in self.RESULTS]

    def line(self):
        return self.rng.choice(self.RESULTS)

    def gen_at_quote(self):
        return self.wrap(self.rng.choice([b'+CLIP: "1234567,129', b'+COPS: 0,0,"', b'+CLCC: 1,1,0,0,0,"123,129', b'+X: a"b"', b'+CNUM: ,"""']))

    def gen_at_empty(self):
        return self.rng.choice([b"\r\n", b"\r\n\r\n", b"\r\n\r\n\r\n", b"\r\n \r\n", b"\r", b"\n"])

    def gen_at_unknown(self):
        return self.wrap(self.rng.choice([b"HELLO", b"+ZZZZ: 1", b"+", b":", b"+CIEV", b"ok", b"+CIEV 1,1", b"CONNECT", b"+FOO: (", b"AT+CIND?"]))

    def gen_at_arity(self):
        return self.wrap(self.rng.choice([b"+CIEV: 1", b"+CIEV: ", b"+CIEV: 1,2,3", b"+CIEV: 99,1", b"+CIEV: 0,0", b"+CIEV: a,b", b"+BCS: ", b"+BCS: x", b"+VGS: ",
                                          b"+VGS: 1,2", b"+CLIP: ", b"+CLIP: 1", b"+BVRA: ", b"+BVRA: 77", b"+CME ERROR: ", b"+CME ERROR: x", b"+BCS: 99", b"+CIEV: -1,1"]))

    def gen_at_nonutf8(self):
        r = self.rng
        bad = r.choice([b"\xff\xfe", b"\xc3", b"\x80", b"\xe2\x82", b"\xf0\x9f\x98"])
        return self.wrap(r.choice([bad, b"+VGS: " + bad, b"+" + bad + b": 1", b'+CLIP: "' + bad + b'",129', bad + b": 1", self.line() + bad]))

    def gen_at_paren(self):
        return self.wrap(self.rng.choice([b"+CHLD: (0,1", b"+CHLD: 0,1)", b"+CIND: ((", b"+BIND: )(", b"+CIEV: (1),(1", b"+X: a(1)", b"+VGS: 1(2"]))

    def gen_at_multi(self):
        r = self.rng
        gens = [self.gen_at_unknown, self.gen_at_paren, self.gen_at_nonutf8, self.gen_at_arity, lambda: self.wrap(self.line()), self.gen_at_empty]
        return b"".join(r.choice(gens)() for _ in range(r.randint(2, 4)))

    async def probe(self):
        """reference: (1) the HF's own AT+CIND? query, answered by the AG side, completes with the reported values;
        (2) a well-formed unsolicited +CIEV after that is delivered as an ag_indicator event"""
        # if the garbage ended in the middle of a result code, the delimiter ends it first
        if getattr(self, "tail", b"") and not self.tail.endswith(b"\r\n"):
            self.dlc.write(b"\r\n")
            await asyncio.sleep(0.2)
        self.stage = "query"
        try:
            rsp = await asyncio.wait_for(self.hf.execute_command("AT+CIND?", timeout=5.0, response_type=hfp.AtResponseType.SINGLE), 30)
        except Exception as e:
            return False, f"HF query AT+CIND? answered by the AG with '+CIND: 0,1,0,0,3,0,4' / 'OK' ended with {type(e).__name__}: {e}"
        if rsp.code != "+CIND" or [bytes(p) for p in rsp.parameters] != [b"0", b"1", b"0", b"0", b"3", b"0", b"4"]:
            return False, f"HF query AT+CIND? returned {rsp}"
        n0 = len(self.hf_events)
        self.dlc.write(b"\r\n+CIEV: 5,2\r\n")
        got = await self.wait_for(lambda: self.hf_events[n0:])
        if not got:
            return False, "unsolicited '+CIEV: 5,2' did not produce an ag_indicator event" + (" (HfProtocol.run() has terminated)" if self.hf_task.done() else "")
        if got[0][1] != 2:
            return False, f"ag_indicator event {got[0]} for '+CIEV: 5,2'"
        # a query with a multi-line answer, completed by the AG's OK
        self.stage = "multi-line-query"
        try:
            calls = await asyncio.wait_for(self.hf.query_current_calls(), 30)
        except Exception as e:
            return False, f"HF query AT+CLCC answered by the AG with one '+CLCC:' line and 'OK' ended with {type(e).__name__}: {e}"
        if len(calls) != 1 or getattr(calls[0], "number", None) != "1234567":
            return False, f"HF query AT+CLCC returned {calls}"
        return True, ""


# ----------------------------------------------------------------------------- LE credit based channel
class LeCocRig(Rig):
    name = "le_coc"
    fixed = False
    classes = mu.GENERIC + ("coc_sdu_len_lie", "coc_sdu_over_mtu", "coc_oversize", "coc_zero_credit_flood", "chan_disc") + STRUCTURED
    PSM = 0x0080
    settle = 0.3
    MTU = 256  # what the victim announces for the channel (and the attacking side too)
    MPS = 64
    # classes made of complete SDUs only (Robust.tla: not in CocPartial): the channel stays in step, the probe is owed on it
    COMPLETE = ("coc_sdu_over_mtu",)

    def prepare_victim(self):
        self.victim_channels = []

        def on_channel(ch):
            self.victim_channels.append(ch)
            ch.sink = lambda sdu: ch.write(b"echo:" + sdu)

        self.victim.create_l2cap_server(l2cap.LeCreditBasedChannelSpec(psm=self.PSM, mtu=self.MTU, mps=self.MPS, max_credits=64), on_channel)

    def forward_to_attacker_stack(self, cid):
        return True

    async def open_channel(self):
        self.closed_by_harness = False
        self.dirty = False
        self.chan = await asyncio.wait_for(self.ac.create_l2cap_channel(l2cap.LeCreditBasedChannelSpec(psm=self.PSM, mtu=self.MTU, mps=self.MPS, max_credits=64)), 10)
        self.sdus = []
        self.chan.sink = lambda sdu: self.sdus.append(bytes(sdu))

    def begin_unit(self, cls):
        self.cur_cls = cls

    def send_chan(self, data):
        if getattr(self, "cur_cls", None) in self.COMPLETE:
            # a peer that keeps to the flow control: the raw K-frame spends one of the credits the victim granted
            if isinstance(getattr(self.chan, "credits", None), int):
                self.chan.credits = max(0, self.chan.credits - 1)
        else:
            self.dirty = True
        self.ac.send_l2cap_pdu(self.chan.destination_cid, data)

    def stale(self):
        return self.dirty

    def chan_open(self):
        return not self.closed_by_harness and self.chan.state == l2cap.LeCreditBasedChannel.State.CONNECTED

    async def reopen(self):
        # a second channel of the same SPSM; the one garbage was sent on is left alone (if the harness sent a valid
        # Disconnection Request for it, the victim has closed it and answered; forget it locally)
        try:
            if self.closed_by_harness and self.chan.state == l2cap.LeCreditBasedChannel.State.CONNECTED:
                self.chan.abort()
            await self.open_channel()
        except Exception as e:
            self.reopen_error = f"{type(e).__name__}: {e}"
            return False
        return True

    def corpus(self):
        r = self.rng
        out = []
        for n in (0, 1, 5, 20, 62):
            sdu = mu.rand_bytes(r, n)
            out.append((f"sdu{n}", struct.pack("<H", n) + sdu))
        return out

    def len_fields(self, pdu):
        return ((0, 2, "little"),)

    def inst_extreme(self):
        """well-formed K-frames whose SDU length takes a boundary value (0, 1, the MTU, the largest value), and credit packets
        of 0 / 1 / 65535 credits for the channel followed by its normal use (an SDU the victim application echoes)"""
        def kframes(n):
            self.dirty = True
            sdu = struct.pack("<H", n) + mu.rand_bytes(self.rng, min(n, 256))
            return [("chan", sdu[i : i + 64]) for i in range(0, len(sdu), 64)]

        def credits(n):
            self.dirty = True
            cr = l2cap.L2CAP_LE_Flow_Control_Credit(identifier=self.next_ident(), cid=self.chan.source_cid, credits=n)
            return [("sig", bytes(cr)), ("chan", struct.pack("<H", 8) + b"C17-use1")]

        out = [(f"SDU.length={t}", lambda n=n: kframes(n)) for n, t in ((0, "0"), (1, "1"), (256, "mtu"), (0xFFFF, "max"))]
        out += [(f"L2CAP_LE_Flow_Control_Credit.credits={t}", lambda n=n: credits(n)) for n, t in ((0, "0"), (1, "1"), (0xFFFF, "max"))]
        return out

    def inst_out_of_phase(self):
        """well-formed signalling PDUs that name this channel but answer nothing (the channel itself is not written on)"""
        ch = lambda: self.chan
        return [
            ("L2CAP_LE_Credit_Based_Connection_Response", lambda: [("sig", bytes(l2cap.L2CAP_LE_Credit_Based_Connection_Response(
                identifier=self.next_ident(), destination_cid=ch().source_cid, mtu=23, mps=23, initial_credits=1, result=0)))]),
            ("L2CAP_Disconnection_Response", lambda: [("sig", bytes(l2cap.L2CAP_Disconnection_Response(
                identifier=self.next_ident(), destination_cid=ch().destination_cid, source_cid=ch().source_cid)))]),
            ("L2CAP_LE_Flow_Control_Credit:peer_cid", lambda: [("sig", bytes(l2cap.L2CAP_LE_Flow_Control_Credit(
                identifier=self.next_ident(), cid=ch().destination_cid, credits=3)))]),
            ("L2CAP_Credit_Based_Reconfigure_Request", lambda: [("sig", bytes(l2cap.L2CAP_Credit_Based_Reconfigure_Request(
                identifier=self.next_ident(), mtu=64, mps=64, destination_cid=[ch().source_cid])))]),
            ("L2CAP_Command_Reject", lambda: [("sig", bytes(l2cap.L2CAP_Command_Reject(identifier=self.next_ident(), reason=0, data=b"")))]),
            ("L2CAP_Configure_Request", lambda: [("sig", bytes(l2cap.L2CAP_Configure_Request(
                identifier=self.next_ident(), destination_cid=ch().destination_cid, flags=0, options=b"\x01\x02\x30\x00")))]),
        ]

    def gen_coc_sdu_len_lie(self):
        r = self.rng
        return r.choice([b"", b"\x05", struct.pack("<H", 200) + b"abc", struct.pack("<H", 0xFFFF) + b"abc", struct.pack("<H", 2) + b"abcdef",
                         struct.pack("<H", 257) + bytes(62), struct.pack("<H", 0) + b"x"])

    def gen_coc_sdu_over_mtu(self):
        """1 .. 3 complete SDUs, each in K-frames of at most the MPS that carry exactly SDU-length bytes; at least one SDU
        length is above the MTU the victim announced (by one, by a few, by a lot), the others are ordinary"""
        r = self.rng
        n = r.randint(1, 3)
        over = r.randrange(n)
        unit = []
        for k in range(n):
            if k == over or r.random() < 0.3:
                length = self.MTU + r.choice([1, 1, 2, 7, self.MPS, self.MTU])
            else:
                length = r.choice([0, 1, 8, self.MPS - 2, self.MPS, 100, self.MTU])
            sdu = struct.pack("<H", length) + mu.rand_bytes(r, length)
            mps = r.choice([self.MPS, self.MPS, self.MPS - 1, 32])  # (at most 3 x 17 K-frames: within the 64 credits granted)
            unit += [("chan", sdu[i : i + mps]) for i in range(0, len(sdu), mps)]
        return unit

    def gen_coc_oversize(self):
        return struct.pack("<H", 10) + mu.rand_bytes(self.rng, self.rng.choice([65, 100, 300, 1000]))  # larger than the MPS

    def gen_coc_zero_credit_flood(self):
        # signalling: credits that overflow 65535 / zero credits for the channel
        r = self.rng
        cr = l2cap.L2CAP_LE_Flow_Control_Credit(identifier=self.next_ident(), cid=self.chan.source_cid, credits=r.choice([0, 0xFFFF, 0xFF00]))
        return [("sig", bytes(cr))]

    def gen_chan_disc(self):
        self.closed_by_harness = True
        req = l2cap.L2CAP_Disconnection_Request(identifier=self.next_ident(), destination_cid=self.chan.destination_cid, source_cid=self.chan.source_cid)
        return [("sig", bytes(req))]

    def disc_of(self, cls, unit):
        return "chan" if cls == "chan_disc" else "none"

    async def probe(self):
        self.stage = "sdu"
        n0 = len(self.sdus)
        self.chan.write(b"C17-ping")
        got = await self.wait_for(lambda: self.sdus[n0:])
        if not got:
            return False, "SDU written on the open LE credit based channel was not echoed by the victim application"
        if got[0] != b"echo:C17-ping":
            return False, f"echo {got[0]!r}"
        # SDUs larger than the MPS, several in a row: segmentation and credits both ways
        self.stage = "large-sdus"
        n0 = len(self.sdus)
        big = [bytes([k]) + bytes(range(200)) for k in range(4)]
        for b in big:
            self.chan.write(b)
        await self.wait_for(lambda: len(self.sdus[n0:]) >= len(big), timeout=10)
        if self.sdus[n0:] != [b"echo:" + b for b in big]:
            return False, f"{len(big)} SDUs of 201 bytes were not echoed correctly by the victim application: got {[x[:8] for x in self.sdus[n0:]]}"
        return True, ""


# ----------------------------------------------------------------------------- HCI entry point of the Host
def hci_valid_disconnect(pkt, handle):
    """independent reading of the bytes: Disconnection Complete, status 0, our handle"""
    return len(pkt) == 7 and pkt[0] == 0x04 and pkt[1] == 0x05 and pkt[2] == 4 and pkt[3] == 0 and (pkt[4] | pkt[5] << 8) & 0x0FFF == handle


class HciRig(AttRig):
    """the victim's own controller is the hostile party: packets are injected at the Host's HCI sink"""
    name = "hci"
    allow_stream = False  # units are whole (possibly malformed) HCI packets: there is no byte stream to re-frame
    classes = ("evt_valid", "evt_trunc", "evt_extend", "evt_bitflip", "evt_badlen", "evt_unknown", "random",
               "acl_cont_orphan", "acl_start_short", "acl_excess", "acl_start_start", "acl_bad_handle", "acl_bad_l2cap_len", "acl_pb_reserved",
               "iso_bad", "sco_bad", "pkt_unknown_type", "evt_disconnect") + STRUCTURED
    phased = False

    def send_unit(self, unit):
        for target, data in unit:
            self.net.stacks[1].tap.inject_to_host(data)

    def starts_txn(self, unit):
        return False

    def event_classes(self):
        classes = list(hci.HCI_Event.event_classes.values()) + list(hci.HCI_LE_Meta_Event.subevent_classes.values())
        return [c for c in sorted(classes, key=lambda c: c.__name__) if c.__name__ != "HCI_Disconnection_Complete_Event"]

    HANDLE_FIELDS = ("connection_handle", "handle")

    def _event(self, c, r, value=None):
        ov = {}
        if value is not None:
            for name, top in int_fields(c):
                ov[name] = {0: 0, 1: 1}.get(value, top)
        for name in self.HANDLE_FIELDS:
            if any(f.name == name for f in dataclasses.fields(c)):
                ov[name] = getattr(self, "vhandle", 0x0001)
        b = bytes(auto_build(c, r, ints=(0, 1, 2, 0xFF), size=8, overrides=ov))
        hci.HCI_Packet.from_bytes(b)
        return b

    def _event_instances(self, values):
        import random as _random

        out = []
        for c in self.event_classes():
            if not dataclasses.is_dataclass(c) or (values != (None,) and not [n for n, _ in int_fields(c) if n not in self.HANDLE_FIELDS]):
                continue
            for v in values:
                try:
                    self._event(c, _random.Random(0), v)
                except Exception:
                    continue
                txt = "" if v is None else f".numeric_fields={v if v != 2 else 'max'}"
                out.append((c.__name__ + txt, lambda c=c, v=v: self._event(c, self.rng, v)))
        return out

    def inst_extreme(self):
        """every event class the Host parses, all its numeric fields (counts, intervals, status ...; the connection handle stays the
        victim's) at 0 / at 1 / at their largest value"""
        return self._event_instances((0, 1, 2))

    def inst_out_of_phase(self):
        """every event class once, well-formed, for the victim's connection: completions of commands never sent, of procedures
        never started"""
        return self._event_instances((None,))

    def events(self):
        if hasattr(self, "_events"):
            return self._events
        classes = list(hci.HCI_Event.event_classes.values()) + list(hci.HCI_LE_Meta_Event.subevent_classes.values())
        out = []
        for c in sorted(classes, key=lambda c: c.__name__):
            if c.__name__ in ("HCI_Disconnection_Complete_Event",):
                continue  # the valid disconnect has a class of its own
            for _ in range(2):
                try:
                    b = bytes(auto_build(c, self.rng, ints=(0, 1, 2, self.vhandle, 0x0EEE, 0xFF), size=8))
                    hci.HCI_Packet.from_bytes(b)
                    out.append((c.__name__, b))
                except Exception:
                    continue
        if len(out) < 60:
            raise RigError(f"hci: only {len(out)} valid events could be built")
        self._events = out
        return out

    def ev(self):
        return self.rng.choice(self.events())[1]

    def gen_evt_valid(self):
        return self.ev()

    def gen_evt_trunc(self):
        return mu.trunc(self.rng, self.ev())

    def gen_evt_extend(self):
        return mu.extend(self.rng, self.ev())

    def gen_evt_bitflip(self):
        return mu.bitflip(self.rng, self.ev())

    def gen_evt_badlen(self):
        e = self.ev()
        fields = [(2, 1, "little")]
        if e[1] == 0x3E and len(e) > 5:
            fields.append((4, 1, "little"))  # num reports / first field of the LE meta event
        return mu.badlen(self.rng, e, fields)

    def gen_evt_unknown(self):
        r = self.rng
        code = r.choice([0x00, 0x21, 0x2A, 0x3D, 0x4F, 0x58, 0x7F, 0xFE, 0xFF, 0x3E])
        params = mu.rand_bytes(r, r.choice([0, 1, 3, 8, 30]))
        if code == 0x3E:
            params = bytes([r.choice([0x00, 0x26, 0x30, 0x7F, 0xFF])]) + params
        return bytes([0x04, code, len(params)]) + params

    def gen_random(self):
        return bytes([self.rng.choice([1, 2, 3, 4, 5])]) + mu.random_unit(self.rng)

    # ACL: L2CAP PDU carrying an ATT Read Request, fragmented by hand
    def acl(self, pb, data, handle=None, bc=0, length=None):
        handle = self.vhandle if handle is None else handle
        return bytes([0x02]) + struct.pack("<HH", handle | pb << 12 | bc << 14, len(data) if length is None else length) + data

    def l2cap_pdu(self, payload=None, cid=att.ATT_CID):
        payload = bytes(att.ATT_Read_Request(attribute_handle=self.ro.handle)) + b"" if payload is None else payload
        return struct.pack("<HH", len(payload), cid) + payload

    def gen_acl_cont_orphan(self):
        return [("chan", self.acl(1, mu.rand_bytes(self.rng, self.rng.randint(1, 27)))) for _ in range(self.rng.randint(1, 3))]

    def gen_acl_start_short(self):
        return self.acl(2, self.l2cap_pdu()[: self.rng.randint(0, 3)])

    def gen_acl_excess(self):
        pdu = self.l2cap_pdu(bytes([0x12]) + struct.pack("<H", self.rw.handle) + mu.rand_bytes(self.rng, 10))
        cut = self.rng.randint(4, len(pdu) - 1)
        return [("chan", self.acl(2, pdu[:cut])), ("chan", self.acl(1, pdu[cut:] + mu.rand_bytes(self.rng, self.rng.randint(1, 40))))]

    def gen_acl_start_start(self):
        pdu = self.l2cap_pdu(bytes([0x12]) + struct.pack("<H", self.rw.handle) + mu.rand_bytes(self.rng, 10))
        cut = self.rng.randint(4, len(pdu) - 1)
        return [("chan", self.acl(2, pdu[:cut]))] * self.rng.randint(1, 2)

    def gen_acl_bad_handle(self):
        return self.acl(2, self.l2cap_pdu(), handle=self.rng.choice([0x000, 0x0EEE, 0x0FFF, self.vhandle + 1]))

    def gen_acl_bad_l2cap_len(self):
        pdu = bytearray(self.l2cap_pdu())
        struct.pack_into("<H", pdu, 0, self.rng.choice([0, 1, 2, 0x00FF, 0xFFFF, 0xFFFB]))
        return self.acl(2, bytes(pdu))

    def gen_acl_pb_reserved(self):
        r = self.rng
        how = r.randrange(3)
        if how == 0:
            return self.acl(r.choice([0, 3]), self.l2cap_pdu(), bc=r.randrange(4))
        if how == 1:  # HCI length field disagrees with the data
            return self.acl(2, self.l2cap_pdu(), length=r.choice([0, 1, 200, 0xFFFF]))
        return bytes([0x02]) + mu.rand_bytes(r, r.randint(0, 3))  # shorter than the ACL header

    def gen_iso_bad(self):
        r = self.rng
        h = r.choice([self.vhandle, 0x0EEE, 0x0060])
        body = mu.rand_bytes(r, r.choice([0, 1, 3, 4, 7, 8, 12, 40]))
        return bytes([0x05]) + struct.pack("<HH", h | r.randrange(4) << 12 | r.randrange(2) << 14, r.choice([len(body), 0, 0x3FFF, len(body) + 5])) + body

    def gen_sco_bad(self):
        r = self.rng
        body = mu.rand_bytes(r, r.choice([0, 1, 48, 60]))
        return bytes([0x03]) + struct.pack("<HB", r.choice([self.vhandle, 0x0EEE]) | r.randrange(4) << 12, r.choice([len(body), 0, 255])) + body

    def gen_pkt_unknown_type(self):
        r = self.rng
        return bytes([r.choice([0x00, 0x06, 0x07, 0x09, 0x10, 0x7F, 0xFF])]) + mu.rand_bytes(r, r.choice([0, 1, 4, 20]))

    def gen_evt_disconnect(self):
        return bytes(hci.HCI_Disconnection_Complete_Event(status=0, connection_handle=self.vhandle, reason=0x13))

    def disc_of(self, cls, unit):
        if any(hci_valid_disconnect(d, self.vhandle) for _, d in unit):
            return "conn"
        return "none"

    async def probe(self):
        tap = self.net.stacks[1].tap

        def outgoing_att():
            out = []
            for d, p in tap.log:
                if d == "h2c" and p[0] == 0x02 and len(p) >= 9 and (p[1] | p[2] << 8) & 0x0FFF == self.vhandle and p[7] | p[8] << 8 == att.ATT_CID:
                    out.append(p[9:])
            return out

        # (1) a complete L2CAP PDU in one start fragment: ATT Read Request, as if received from the peer
        ok, why = await self.att_probe(lambda b: tap.inject_to_host(self.acl(2, self.l2cap_pdu(b))), outgoing_att)
        if not ok:
            return ok, "via injected ACL data: " + why
        # (2) the command path of the Host still works against its (real) controller
        try:
            rsp = await asyncio.wait_for(self.victim.host.send_command(hci.HCI_Read_BD_ADDR_Command()), 30)
        except Exception as e:
            return False, f"HCI_Read_BD_ADDR_Command after the injected packets ended with {type(e).__name__}: {e}"
        return True, ""


RIGS = {r.name: r for r in (AttRig, SmpRig, LeSigRig, ClassicSigRig, SdpRig, RfcommRig, HfpAgRig, HfpHfRig, AvdtpRig, AvctpRig, LeCocRig, HciRig)}
