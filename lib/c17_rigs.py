"""C17 channel rigs: for every channel of Stack/Robust.tla a real two-device network (lib.rig.Net),
a victim application, an attacking side that sends raw bytes, a probe (the reference request of the
channel) and the fault-class generators (valid PDUs built with bumble's own classes, then mutated).

An injection *unit* is a list of (target, bytes): target "chan" = raw bytes on the channel under test
(L2CAP PDU on its CID / bytes of the AT stream / one HCI packet), "sig" = a PDU on the L2CAP signalling
channel of the same link (used for the valid-disconnect class of dynamic channels).
"""
from __future__ import annotations

import asyncio
import dataclasses
import struct

from bumble import a2dp, att, avc, avctp, avdtp, avrcp, hci, hfp, l2cap, rfcomm, sdp, smp
from bumble.core import UUID, PhysicalTransport
from bumble.gatt import Characteristic, Service

from lib import c17_mutate as mu
from lib import rig

PROBE_VALUE = b"C17-reference-value"
SDP_UUID = UUID("E6D55659-C8B4-4B85-96BB-B1143AF6D3AE")
SDP_HANDLE = 0x00010001


class RigError(Exception):
    """harness failure (machinery), never a verdict"""


# ----------------------------------------------------------------------------- corpus from bumble's classes
def auto_build(cls, rng, ints=(0, 1, 2, 3, 0x40, 0xFF), size=None, overrides=None):
    """instantiate a bumble PDU dataclass with plausible field values"""
    kw = {}
    overrides = overrides or {}
    for f in dataclasses.fields(cls):
        if not f.init or f.name in ("code", "name", "_payload", "op_code", "event_code", "subevent_code", "_parameters",
                                    "parameters", "hci_packet_type", "fields"):
            continue
        if f.name in overrides:
            kw[f.name] = overrides[f.name]
            continue
        ts = str(f.type)
        if f.name in ("identifier", "transaction_id"):
            kw[f.name] = rng.randint(1, 250)
            continue
        if f.default is not dataclasses.MISSING or f.default_factory is not dataclasses.MISSING:
            continue
        if ts == "int":
            kw[f.name] = rng.choice(ints)
        elif ts == "bytes":
            n = size if size is not None else rng.choice([0, 1, 2, 7, 16, 16, 16, 20])
            kw[f.name] = bytes(rng.getrandbits(8) for _ in range(n))
        elif "Address" in ts:
            kw[f.name] = hci.Address("F0:F1:F2:F3:F4:F5")
        elif ts in ("Sequence[int]", "Iterable[int]", "list[int]"):
            kw[f.name] = [rng.choice(ints) & 0x3F for _ in range(rng.randint(1, 3))]
        elif ts in ("Sequence[bytes]", "list[bytes]"):
            kw[f.name] = [b"\x01\x02"]
        elif ts == "UUID":
            kw[f.name] = rng.choice([UUID.from_16_bits(0x2800), UUID.from_16_bits(0x2803), UUID.from_16_bits(0x2902), SDP_UUID])
        elif ts == "DataElement":
            kw[f.name] = sdp.DataElement.sequence([sdp.DataElement.uuid(rng.choice([UUID.from_16_bits(0x1101), SDP_UUID]))])
        elif "ServiceCapabilities" in ts:
            kw[f.name] = [avdtp.ServiceCapabilities(1, b""), avdtp.ServiceCapabilities(7, b"\x00\x00\x21\x15\x02\x35")]
        elif "EndPointInfo" in ts:
            kw[f.name] = [avdtp.EndPointInfo(1, 0, 0, 1)]
        elif ts.startswith("list[") or ts.startswith("Sequence["):
            kw[f.name] = []
        else:
            kw[f.name] = 1
    return cls(**kw)


def _classes(mod, prefix, base=None, skip=()):
    out = []
    for name in sorted(dir(mod)):
        c = getattr(mod, name)
        if not isinstance(c, type) or not dataclasses.is_dataclass(c) or not name.startswith(prefix) or name in skip:
            continue
        if base is not None and not (issubclass(c, base) and c is not base):
            continue
        out.append(c)
    return out


def build_corpus(classes, rng, to_bytes=bytes, per_class=2, **kw):
    """-> list of (class name, bytes); classes that cannot be built with generic values are skipped"""
    out = []
    for c in classes:
        for _ in range(per_class):
            try:
                out.append((c.__name__, to_bytes(auto_build(c, rng, **kw))))
            except Exception:
                # this class needs hand-made arguments; the corpus size is checked by the caller
                continue
    return out


# ----------------------------------------------------------------------------- base
class Rig:
    name = ""
    fixed = True  # the channel cannot be closed (fixed CID / HCI)
    transport = "le"
    classes = mu.GENERIC
    settle = 0.2  # virtual seconds run after each injected unit
    allow_stream = True  # the victim's host may be fed through a PacketParser

    def __init__(self, rng):
        self.rng = rng
        self.net = None
        self.rx = []  # frames seen by the attacking side on the channel under test
        self.closed_by_harness = False
        self.ident = 0x20
        self.victim_exceptions = []

    # --- construction
    async def setup(self):
        self.net = rig.Net(2, seed=self.rng.getrandbits(30))
        if self.transport == "classic":
            rig.enable_classic(self.net)
        self.attacker = self.net[0]
        self.victim = self.net[1]
        # in half of the runs the victim's host sits behind a stream transport: what its controller sends goes
        # through a real PacketParser (the transport boundary where exceptions of the stack are contained)
        self.stream_fed = self.allow_stream and self.rng.random() < 0.5
        if self.stream_fed:
            from bumble.transport.common import PacketParser

            st = self.net.stacks[1]
            self.parser = PacketParser(st.host)
            st.tap.line_c2h.deliver = self.parser.feed_data
        self.prepare_victim()
        await self.net.power_on()
        if self.transport == "classic":
            self.ac, self.vc = await self.net.connect_classic(0, 1)
        else:
            self.ac, self.vc = await self.net.connect_le(0, 1)
        self.vhandle = self.vc.handle
        self._tap_attacker()
        await self.open_channel()

    def prepare_victim(self):
        pass

    async def open_channel(self):
        pass

    def _tap_attacker(self):
        """record every L2CAP frame reaching the attacking device; keep its own upper layers out of the
        conversation on fixed channels (they would talk back to the victim)"""
        mgr = self.attacker.l2cap_channel_manager
        orig = mgr.on_pdu
        self.frames = []  # (cid, pdu)

        def on_pdu(connection, cid, pdu):
            self.frames.append((cid, bytes(pdu)))
            if self.forward_to_attacker_stack(cid):
                orig(connection, cid, pdu)

        mgr.on_pdu = on_pdu

    def forward_to_attacker_stack(self, cid):
        return False

    # --- generic services
    def next_ident(self):
        self.ident = self.ident % 250 + 1
        return self.ident

    def send_raw(self, cid, data):
        self.ac.send_l2cap_pdu(cid, data)

    def send_unit(self, unit):
        for target, data in unit:
            if target == "chan":
                self.send_chan(data)
            elif target == "sig":
                self.send_raw(l2cap.L2CAP_SIGNALING_CID if self.transport == "classic" else l2cap.L2CAP_LE_SIGNALING_CID, data)
            else:
                raise RigError(f"unknown target {target}")

    def send_chan(self, data):
        raise NotImplementedError

    def conn_alive(self):
        return self.vhandle in self.victim.connections

    def chan_open(self):
        return True

    async def reopen(self):
        return True

    def stale(self):
        """the channel has no delimiter to resynchronise on and raw bytes were sent on it: probe on a fresh channel"""
        return False

    def disc_of(self, cls, unit):
        """which valid disconnect (if any) the bytes of this unit are: none / chan / conn"""
        return "none"

    async def probe(self):
        raise NotImplementedError

    async def wait_for(self, pred, timeout=5.0, step=0.05):
        """poll in virtual time"""
        t = 0.0
        while t < timeout:
            r = pred()
            if r:
                return r
            await asyncio.sleep(step)
            t += step
        return pred()

    # --- fault classes
    def corpus(self):
        raise NotImplementedError

    def len_fields(self, pdu):
        return ()

    def pick(self):
        c = self._corpus if hasattr(self, "_corpus") else None
        if c is None:
            c = self._corpus = self.corpus()
            if len(c) < 4:
                raise RigError(f"{self.name}: corpus of valid PDUs too small ({len(c)})")
        return self.rng.choice(c)[1]

    def gen(self, cls):
        """-> unit = list of (target, bytes)"""
        if cls in mu.GENERIC:
            pdu = self.pick()
            return [("chan", mu.generic(cls, self.rng, pdu, self.len_fields(pdu)))]
        fn = getattr(self, "gen_" + cls, None)
        if fn is None:
            raise RigError(f"{self.name}: no generator for fault class {cls}")
        unit = fn()
        if isinstance(unit, (bytes, bytearray)):
            unit = [("chan", bytes(unit))]
        return unit


def sig_len_fields(pdu):
    return ((2, 2, "little"),)


# ----------------------------------------------------------------------------- LE fixed channels
class AttRig(Rig):
    name = "att"
    classes = mu.GENERIC + ("att_unknown_op", "att_server_pdu")

    def prepare_victim(self):
        self.ro = Characteristic(UUID("0000C171-0000-1000-8000-00805F9B34FB"), Characteristic.Properties.READ,
                                 Characteristic.READABLE, PROBE_VALUE)
        self.rw = Characteristic(UUID("0000C172-0000-1000-8000-00805F9B34FB"),
                                 Characteristic.Properties.READ | Characteristic.Properties.WRITE | Characteristic.Properties.NOTIFY,
                                 Characteristic.READABLE | Characteristic.WRITEABLE, b"scratch")
        self.victim.add_service(Service(UUID("0000C170-0000-1000-8000-00805F9B34FB"), [self.ro, self.rw]))

    def send_chan(self, data):
        self.send_raw(att.ATT_CID, data)

    def handles(self):
        return (0, 1, 2, 3, self.ro.handle, self.rw.handle, self.rw.handle + 1, 0xFFFF)

    def corpus(self):
        req = [c for c in _classes(att, "ATT_", skip=("ATT_PDU", "ATT_Error")) if not c.__name__.endswith("Response")
               and "Notification" not in c.__name__ and "Indication" not in c.__name__]
        return build_corpus(req, self.rng, per_class=3, ints=self.handles())

    def gen_att_unknown_op(self):
        op = self.rng.choice([0x00, 0x14, 0x15, 0x1A, 0x1C, 0x1F, 0x22, 0x3A, 0x3F, 0x7F, 0xBF, 0xFF, 0x54, 0x92])
        return bytes([op]) + mu.rand_bytes(self.rng, self.rng.choice([0, 1, 2, 4, 20]))

    def gen_att_server_pdu(self):
        rsp = [c for c in _classes(att, "ATT_", skip=("ATT_PDU", "ATT_Error")) if c.__name__.endswith("Response")
               or "Notification" in c.__name__ or "Indication" in c.__name__]
        c = build_corpus(rsp, self.rng, per_class=1, ints=self.handles())
        return self.rng.choice(c)[1]

    async def att_probe(self, send, received):
        n0 = len(received())
        send(bytes(att.ATT_Read_Request(attribute_handle=self.ro.handle)))
        got = await self.wait_for(lambda: [p for p in received()[n0:] if p[:1] == bytes([0x0B])])
        if not got:
            return False, f"no Read Response to Read Request(handle={self.ro.handle}); frames since: {[p.hex() for p in received()[n0:]][:4]}"
        # the value the victim application holds now (a well-formed Write Request among the injected units may have
        # changed it: whether that write should have been permitted is C11's business); long values are cut to the MTU
        value = bytes(self.ro.value) if isinstance(self.ro.value, (bytes, bytearray)) else PROBE_VALUE
        body = got[0][1:]
        if body != value[: len(body)] or len(body) < min(len(value), 22):
            return False, f"Read Response {got[0].hex()} does not carry the attribute value {value.hex()}"
        return True, ""

    async def probe(self):
        return await self.att_probe(self.send_chan, lambda: [p for c, p in self.frames if c == att.ATT_CID])


class SmpRig(Rig):
    name = "smp"
    classes = mu.GENERIC + ("smp_unknown_code", "smp_out_of_order")

    def send_chan(self, data):
        self.send_raw(smp.SMP_CID, data)

    def corpus(self):
        return build_corpus(_classes(smp, "SMP_", skip=("SMP_Command",)), self.rng, per_class=2, ints=(0, 1, 3, 4, 7, 16))

    def gen_smp_unknown_code(self):
        return bytes([self.rng.choice([0x00, 0x0F, 0x10, 0x55, 0xFF])]) + mu.rand_bytes(self.rng, self.rng.choice([0, 1, 6, 16]))

    def gen_smp_out_of_order(self):
        # well-formed commands that make no sense without the preceding pairing phases
        r = self.rng
        return r.choice([
            bytes(smp.SMP_Pairing_Random_Command(random_value=mu.rand_bytes(r, 16))),
            bytes(smp.SMP_Pairing_DHKey_Check_Command(dhkey_check=mu.rand_bytes(r, 16))),
            bytes(smp.SMP_Pairing_Public_Key_Command(public_key_x=mu.rand_bytes(r, 32), public_key_y=mu.rand_bytes(r, 32))),
            bytes(smp.SMP_Pairing_Confirm_Command(confirm_value=mu.rand_bytes(r, 16))),
            bytes(smp.SMP_Encryption_Information_Command(long_term_key=mu.rand_bytes(r, 16))),
            bytes(smp.SMP_Pairing_Response_Command(io_capability=3, oob_data_flag=0, auth_req=1, maximum_encryption_key_size=16,
                                                   initiator_key_distribution=7, responder_key_distribution=7)),
        ])

    async def probe(self):
        # a peer may always abandon a pairing (Pairing Failed) and start a new one: the new Pairing Request must be
        # answered (Pairing Response, or Pairing Failed e.g. "repeated attempts": the property leaves that free)
        rx = lambda: [p for c, p in self.frames if c == smp.SMP_CID]
        self.send_chan(bytes(smp.SMP_Pairing_Failed_Command(reason=smp.ErrorCode.UNSPECIFIED_REASON)))
        await asyncio.sleep(0.5)
        n0 = len(rx())
        self.send_chan(bytes(smp.SMP_Pairing_Request_Command(io_capability=3, oob_data_flag=0, auth_req=1, maximum_encryption_key_size=16,
                                                             initiator_key_distribution=0, responder_key_distribution=0)))
        got = await self.wait_for(lambda: [p for p in rx()[n0:] if p[:1] in (b"\x02", b"\x05")])
        if not got:
            return False, f"Pairing Request not answered (no Pairing Response / Pairing Failed); frames since: {[p.hex() for p in rx()[n0:]][:4]}"
        if got[0][0] == 2 and len(got[0]) != 7:
            return False, f"malformed Pairing Response {got[0].hex()}"
        return True, ""


class SigRig(Rig):
    """signalling channel of the link (fixed CID 1 / 5)"""
    classes = mu.GENERIC + ("sig_unknown_code", "sig_multi", "sig_unsolicited_rsp")

    @property
    def cid(self):
        return l2cap.L2CAP_SIGNALING_CID if self.transport == "classic" else l2cap.L2CAP_LE_SIGNALING_CID

    def send_chan(self, data):
        self.send_raw(self.cid, data)

    def len_fields(self, pdu):
        return sig_len_fields(pdu)

    def corpus(self):
        cl = _classes(l2cap, "L2CAP_", base=l2cap.L2CAP_Control_Frame)
        return build_corpus(cl, self.rng, per_class=2, ints=(0, 1, 2, 0x40, 0x41, 0x80, 0xF1, 23, 0xFFFF))

    def gen_sig_unknown_code(self):
        code = self.rng.choice([0x00, 0x0C, 0x0D, 0x0E, 0x0F, 0x10, 0x11, 0x1B, 0x30, 0x7F, 0xFF])
        data = mu.rand_bytes(self.rng, self.rng.choice([0, 2, 4, 8]))
        return bytes([code, self.next_ident()]) + struct.pack("<H", len(data)) + data

    def gen_sig_multi(self):
        # several commands packed in one C-frame (legal on BR/EDR, not on LE)
        return b"".join(self.pick() for _ in range(self.rng.randint(2, 4)))

    def gen_sig_unsolicited_rsp(self):
        rsp = [c for c in _classes(l2cap, "L2CAP_", base=l2cap.L2CAP_Control_Frame) if c.__name__.endswith("Response")
               or c.__name__ in ("L2CAP_Command_Reject", "L2CAP_LE_Flow_Control_Credit")]
        return self.rng.choice(build_corpus(rsp, self.rng, per_class=1, ints=(0, 1, 0x40, 0x41, 0xFFFF)))[1]

    def sig_frames(self):
        return [p for c, p in self.frames if c == self.cid]


class LeSigRig(SigRig):
    name = "le_sig"

    async def probe(self):
        ident = self.next_ident()
        n0 = len(self.sig_frames())
        req = l2cap.L2CAP_LE_Credit_Based_Connection_Request(identifier=ident, le_psm=0x00F1, source_cid=0x0070, mtu=64, mps=64, initial_credits=1)
        self.send_chan(bytes(req))
        got = await self.wait_for(lambda: [p for p in self.sig_frames()[n0:] if len(p) >= 2 and p[1] == ident])
        if not got:
            return False, f"LE Credit Based Connection Request (id {ident}) got no reply; frames since: {[p.hex() for p in self.sig_frames()[n0:]][:4]}"
        p = got[0]
        # unknown SPSM: response 0x15 with result 0x0002 (SPSM not supported)
        if p[0] != 0x15 or len(p) != 14 or struct.unpack_from("<H", p, 12)[0] != 0x0002:
            return False, f"reply to a request for an unregistered SPSM is {p.hex()}, expected LE Credit Based Connection Response with result 0x0002"
        return True, ""


class ClassicSigRig(SigRig):
    name = "classic_sig"
    transport = "classic"

    async def probe(self):
        ident = self.next_ident()
        n0 = len(self.sig_frames())
        data = b"C17-echo"
        self.send_chan(bytes(l2cap.L2CAP_Echo_Request(identifier=ident, data=data)))
        want = bytes(l2cap.L2CAP_Echo_Response(identifier=ident, data=data))
        got = await self.wait_for(lambda: [p for p in self.sig_frames()[n0:] if p[:2] == want[:2]])
        if not got:
            return False, f"Echo Request (id {ident}) got no Echo Response; frames since: {[p.hex() for p in self.sig_frames()[n0:]][:4]}"
        if got[0] != want:
            return False, f"Echo Response {got[0].hex()} != {want.hex()}"
        return True, ""


# ----------------------------------------------------------------------------- dynamic L2CAP channels
class DynRig(Rig):
    """a dynamic L2CAP channel opened by the attacking side with bumble's own channel manager; garbage is
    sent raw on the victim's CID of that channel"""
    fixed = False
    transport = "classic"
    psm = 0
    classes = mu.GENERIC + ("chan_disc",)

    def forward_to_attacker_stack(self, cid):
        return True  # the attacking side needs its signalling / channel state machines

    async def open_l2cap(self):
        self.chan = await asyncio.wait_for(self.ac.create_l2cap_channel(l2cap.ClassicChannelSpec(psm=self.psm)), 10)
        self.chan.sink = lambda pdu: self.rx.append(bytes(pdu))
        self.closed_by_harness = False

    async def open_channel(self):
        await self.open_l2cap()

    def send_chan(self, data):
        self.ac.send_l2cap_pdu(self.chan.destination_cid, data)

    def l2cap_open(self):
        return self.chan.state == l2cap.ClassicChannel.State.OPEN

    def chan_open(self):
        return not self.closed_by_harness and self.l2cap_open()

    async def reopen(self):
        if self.l2cap_open() and self.closed_by_harness:
            self.chan.abort()  # the victim has (been asked to) close it; forget it locally
        try:
            await self.open_channel()
        except Exception as e:  # the legitimate procedure failed on the victim side
            self.reopen_error = f"{type(e).__name__}: {e}"
            return False
        return True

    def gen_chan_disc(self):
        # a valid L2CAP Disconnection Request for the channel under test
        self.closed_by_harness = True
        req = l2cap.L2CAP_Disconnection_Request(identifier=self.next_ident(), destination_cid=self.chan.destination_cid, source_cid=self.chan.source_cid)
        return [("sig", bytes(req))]

    def disc_of(self, cls, unit):
        return "chan" if cls == "chan_disc" else "none"


class SdpRig(DynRig):
    name = "sdp"
    psm = sdp.SDP_PSM
    classes = DynRig.classes + ("sdp_nest_deep", "sdp_size_lie", "sdp_bad_continuation")

    def prepare_victim(self):
        self.victim.sdp_server.service_records.update({
            SDP_HANDLE: [
                sdp.ServiceAttribute(sdp.SDP_SERVICE_RECORD_HANDLE_ATTRIBUTE_ID, sdp.DataElement.unsigned_integer_32(SDP_HANDLE)),
                sdp.ServiceAttribute(sdp.SDP_BROWSE_GROUP_LIST_ATTRIBUTE_ID, sdp.DataElement.sequence([sdp.DataElement.uuid(sdp.SDP_PUBLIC_BROWSE_ROOT)])),
                sdp.ServiceAttribute(sdp.SDP_SERVICE_CLASS_ID_LIST_ATTRIBUTE_ID, sdp.DataElement.sequence([sdp.DataElement.uuid(SDP_UUID)])),
            ]
        })

    def len_fields(self, pdu):
        return ((3, 2, "big"),)

    def corpus(self):
        return build_corpus(_classes(sdp, "SDP_", skip=("SDP_PDU",)), self.rng, per_class=3, ints=(0, 1, 10, SDP_HANDLE, 0xFFFF), size=1)

    def _request(self, pattern_bytes, pdu_id=None):
        pdu_id = pdu_id or self.rng.choice([0x02, 0x06])
        if pdu_id == 0x02:
            params = pattern_bytes + struct.pack(">H", 10) + b"\x00"
        else:
            params = pattern_bytes + struct.pack(">H", 100) + bytes([0x35, 0x05, 0x0A, 0x00, 0x00, 0xFF, 0xFF]) + b"\x00"
        return bytes([pdu_id]) + struct.pack(">HH", self.rng.randint(0, 0xFFFF), len(params)) + params

    def gen_sdp_nest_deep(self):
        depth = self.rng.choice([9, 17, 33, 64, 200, 400, 1200, 3000])
        return self._request(mu.sdp_nested(depth, width16=self.rng.random() < 0.7))

    def gen_sdp_size_lie(self):
        return self._request(mu.sdp_size_lie(self.rng))

    def gen_sdp_bad_continuation(self):
        pat = bytes(sdp.DataElement.sequence([sdp.DataElement.uuid(SDP_UUID)]))
        cont = self.rng.choice([b"\x01\x00", b"\x02\x00\x01", b"\x10" + bytes(16), b"\x11" + bytes(17), b"\xff", b"\x02\xff\xff", b"\x05\x01"])
        params = pat + struct.pack(">H", 10) + cont
        return b"\x02" + struct.pack(">HH", 1, len(params)) + params

    async def probe(self):
        tid = self.rng.randint(1, 0xFFF0)
        n0 = len(self.rx)
        req = sdp.SDP_ServiceSearchRequest(transaction_id=tid, service_search_pattern=sdp.DataElement.sequence([sdp.DataElement.uuid(SDP_UUID)]),
                                           maximum_service_record_count=10, continuation_state=b"\x00")
        self.send_chan(bytes(req))
        got = await self.wait_for(lambda: [p for p in self.rx[n0:] if len(p) >= 5 and struct.unpack_from(">H", p, 1)[0] == tid])
        if not got:
            return False, f"ServiceSearchRequest (tid {tid}) not answered; frames since: {[p.hex() for p in self.rx[n0:]][:4]}"
        p = got[0]
        want = b"\x03" + struct.pack(">HH", tid, 9) + struct.pack(">HHI", 1, 1, SDP_HANDLE) + b"\x00"
        if p != want:
            return False, f"ServiceSearchResponse {p.hex()} != {want.hex()}"
        return True, ""


def avdtp_header(label, ptype, mtype):
    return bytes([(label & 0xF) << 4 | (ptype & 3) << 2 | (mtype & 3)])


class AvdtpRig(DynRig):
    name = "avdtp"
    psm = avdtp.AVDTP_PSM
    classes = DynRig.classes + ("frag_drop", "frag_dup", "frag_mislabel")

    def prepare_victim(self):
        self.listener = avdtp.Listener.for_device(self.victim)
        self.servers = []

        def on_connection(server):
            self.servers.append(server)
            self.sink_ep = server.add_sink(avdtp.MediaCodecCapabilities(
                media_type=avdtp.MediaType.AUDIO, media_codec_type=a2dp.CodecType.SBC,
                media_codec_information=a2dp.SbcMediaCodecInformation(
                    sampling_frequency=a2dp.SbcMediaCodecInformation.SamplingFrequency.SF_44100,
                    channel_mode=a2dp.SbcMediaCodecInformation.ChannelMode.JOINT_STEREO,
                    block_length=a2dp.SbcMediaCodecInformation.BlockLength.BL_16,
                    subbands=a2dp.SbcMediaCodecInformation.Subbands.S_8,
                    allocation_method=a2dp.SbcMediaCodecInformation.AllocationMethod.LOUDNESS,
                    minimum_bitpool_value=2, maximum_bitpool_value=53)))

        self.listener.on("connection", on_connection)

    def messages(self):
        out = []
        for c in _classes(avdtp, "", base=avdtp.Message, skip=("Simple_Command", "Simple_Reject")):
            for _ in range(2):
                try:
                    m = auto_build(c, self.rng, ints=(0, 1, 2, 5, 0x3F))
                    out.append((c.__name__, int(m.message_type), int(m.signal_identifier), bytes(m.payload)))
                except Exception:
                    continue
        return out

    def corpus(self):
        return [(n, avdtp_header(self.rng.randrange(16), 0, mt) + bytes([sid]) + pl) for n, mt, sid, pl in self.messages()]

    def fragments(self):
        """a well-formed fragmented command: START, CONTINUE*, END"""
        label = self.rng.randrange(16)
        body = bytes([0x04, 0x08]) + b"".join(bytes([cat, 6]) + mu.rand_bytes(self.rng, 6) for cat in (1, 7, 7, 4, 7))  # Set Configuration
        n = self.rng.randint(3, 5)
        size = -(-len(body) // n)
        parts = [body[i : i + size] for i in range(0, len(body), size)]
        n = len(parts)
        frs = [avdtp_header(label, 1, 0) + bytes([0x03, n]) + parts[0]]
        for p in parts[1:-1]:
            frs.append(avdtp_header(label, 2, 0) + p)
        frs.append(avdtp_header(label, 3, 0) + parts[-1])
        return frs

    def gen_frag_drop(self):
        frs = self.fragments()
        del frs[self.rng.randrange(len(frs))]
        if self.rng.random() < 0.3:
            frs = frs[:1]  # a START alone
        return [("chan", f) for f in frs]

    def gen_frag_dup(self):
        frs = self.fragments()
        i = self.rng.randrange(len(frs))
        frs.insert(i, frs[i])
        return [("chan", f) for f in frs]

    def gen_frag_mislabel(self):
        frs = self.fragments()
        i = self.rng.randrange(len(frs))
        b = bytearray(frs[i])
        how = self.rng.randrange(4)
        if how == 0:
            b[0] ^= 0x10 << self.rng.randrange(4)  # transaction label
        elif how == 1:
            b[0] ^= 0x04 << self.rng.randrange(2)  # packet type
        elif how == 2:
            b[0] ^= 1 << self.rng.randrange(2)  # message type
        elif i == 0:
            b[2] = self.rng.choice([0, 1, 2, 255])  # number of signal packets
        else:
            b[0] ^= 0x10
        frs[i] = bytes(b)
        return [("chan", f) for f in frs]

    async def probe(self):
        label = self.rng.randrange(16)
        n0 = len(self.rx)
        self.send_chan(avdtp_header(label, 0, 0) + b"\x01")  # Discover, single packet
        got = await self.wait_for(lambda: [p for p in self.rx[n0:] if len(p) >= 2 and p[0] >> 4 == label and p[1] & 0x3F == 1])
        if not got:
            return False, f"AVDTP Discover (label {label}) not answered; frames since: {[p.hex() for p in self.rx[n0:]][:4]}"
        p = got[0]
        if p[0] != avdtp_header(label, 0, 2)[0] or len(p) != 4 or p[2] >> 2 != self.sink_ep.seid:
            return False, f"Discover response {p.hex()} is not Response Accept listing SEID {self.sink_ep.seid}"
        return True, ""


def avctp_header(label, ptype, cr, ipid=0):
    return bytes([(label & 0xF) << 4 | (ptype & 3) << 2 | (cr & 1) << 1 | (ipid & 1)])


class AvctpRig(DynRig):
    name = "avctp"
    psm = avctp.AVCTP_PSM
    classes = DynRig.classes + ("frag_drop", "frag_dup", "frag_mislabel", "avctp_bad_pid")
    PID = 0x110E

    def prepare_victim(self):
        self.avrcp = avrcp.Protocol()
        self.avrcp.listen(self.victim)

    def avc_frames(self):
        r = self.rng
        out = [
            bytes(avc.PassThroughCommandFrame(avc.CommandFrame.CommandType.CONTROL, avc.Frame.SubunitType.PANEL, 0,
                                              avc.PassThroughFrame.StateFlag.PRESSED, avc.PassThroughFrame.OperationId.PLAY, b"")),
            bytes(avc.PassThroughCommandFrame(avc.CommandFrame.CommandType.CONTROL, avc.Frame.SubunitType.PANEL, 0,
                                              avc.PassThroughFrame.StateFlag.RELEASED, avc.PassThroughFrame.OperationId.VOLUME_UP, b"\x01")),
        ]
        for cmd in (avrcp.GetCapabilitiesCommand(capability_id=avrcp.GetCapabilitiesCommand.CapabilityId.EVENTS_SUPPORTED),
                    avrcp.GetPlayStatusCommand(), avrcp.SetAbsoluteVolumeCommand(volume=r.randrange(128)),
                    avrcp.RegisterNotificationCommand(event_id=avrcp.EventId.VOLUME_CHANGED, playback_interval=0),
                    avrcp.GetElementAttributesCommand(identifier=0, attribute_ids=[avrcp.MediaAttributeId.TITLE])):
            pdu = bytes([int(cmd.pdu_id), 0]) + struct.pack(">H", len(bytes(cmd))) + bytes(cmd)
            out.append(bytes(avc.VendorDependentCommandFrame(r.choice([avc.CommandFrame.CommandType.STATUS, avc.CommandFrame.CommandType.CONTROL,
                                                                       avc.CommandFrame.CommandType.NOTIFY]),
                                                             avc.Frame.SubunitType.PANEL, 0, 0x001958, pdu)))
        # responses sent to a target
        out.append(bytes(avc.PassThroughResponseFrame(avc.ResponseFrame.ResponseCode.ACCEPTED, avc.Frame.SubunitType.PANEL, 0,
                                                      avc.PassThroughFrame.StateFlag.PRESSED, avc.PassThroughFrame.OperationId.PLAY, b"")))
        return out

    def corpus(self):
        out = []
        for i, f in enumerate(self.avc_frames()):
            cr = 1 if i == 7 else 0
            out.append((f"avc{i}", avctp_header(self.rng.randrange(16), 0, cr) + struct.pack(">H", self.PID) + f))
        return out

    def len_fields(self, pdu):
        # AV/C vendor dependent: company id(3) pdu id(1) packet type(1) parameter length(2) after avctp(3)+avc(3)
        return ((3 + 3 + 5, 2, "big"),) if len(pdu) > 13 and pdu[5] == 0x00 else ()

    def fragments(self):
        label = self.rng.randrange(16)
        body = self.rng.choice(self.avc_frames()) + mu.rand_bytes(self.rng, self.rng.randint(8, 40))
        n = self.rng.randint(3, 5)
        size = -(-len(body) // n)
        parts = [body[i : i + size] for i in range(0, len(body), size)]
        n = len(parts)
        frs = [avctp_header(label, 1, 0) + bytes([n]) + struct.pack(">H", self.PID) + parts[0]]
        for p in parts[1:-1]:
            frs.append(avctp_header(label, 2, 0) + p)
        frs.append(avctp_header(label, 3, 0) + parts[-1])
        return frs

    gen_frag_drop = AvdtpRig.gen_frag_drop
    gen_frag_dup = AvdtpRig.gen_frag_dup

    def gen_frag_mislabel(self):
        frs = self.fragments()
        i = self.rng.randrange(len(frs))
        b = bytearray(frs[i])
        how = self.rng.randrange(4)
        if how == 0:
            b[0] ^= 0x10 << self.rng.randrange(4)
        elif how == 1:
            b[0] ^= 0x04 << self.rng.randrange(2)
        elif how == 2:
            b[0] ^= 1 << self.rng.randrange(2)  # C/R or IPID
        elif i == 0:
            b[1] = self.rng.choice([0, 1, 2, 255])
        else:
            b[0] ^= 0x20
        frs[i] = bytes(b)
        return [("chan", f) for f in frs]

    def gen_avctp_bad_pid(self):
        pid = self.rng.choice([0x0000, 0x110C, 0x1234, 0xFFFF])
        return avctp_header(self.rng.randrange(16), 0, self.rng.randrange(2), self.rng.randrange(2)) + struct.pack(">H", pid) + self.rng.choice(self.avc_frames())

    async def probe(self):
        label = self.rng.randrange(16)
        n0 = len(self.rx)
        cmd = avc.PassThroughCommandFrame(avc.CommandFrame.CommandType.CONTROL, avc.Frame.SubunitType.PANEL, 0,
                                          avc.PassThroughFrame.StateFlag.PRESSED, avc.PassThroughFrame.OperationId.PLAY, b"")
        self.send_chan(avctp_header(label, 0, 0) + struct.pack(">H", self.PID) + bytes(cmd))
        got = await self.wait_for(lambda: [p for p in self.rx[n0:] if len(p) >= 3 and p[0] >> 4 == label and p[0] & 2])
        if not got:
            return False, f"AV/C PASS THROUGH command (label {label}) not answered; frames since: {[p.hex() for p in self.rx[n0:]][:4]}"
        p = got[0]
        want = avctp_header(label, 0, 1) + struct.pack(">H", self.PID) + bytes(avc.PassThroughResponseFrame(
            avc.ResponseFrame.ResponseCode.ACCEPTED, avc.Frame.SubunitType.PANEL, 0, avc.PassThroughFrame.StateFlag.PRESSED,
            avc.PassThroughFrame.OperationId.PLAY, b""))
        if p != want:
            return False, f"PASS THROUGH response {p.hex()} != {want.hex()}"
        return True, ""


# ----------------------------------------------------------------------------- RFCOMM and the AT streams
def rfcomm_fcs_ok(frame):
    """independent check (TS 07.10): FCS over address+control(+length for non-UIH)"""
    if len(frame) < 4:
        return False
    n = 2 if frame[1] & 0xEF == 0xEF else (3 if frame[2] & 1 else 4)
    fcs = 0xFF
    for b in frame[:n]:
        fcs ^= b
        for _ in range(8):
            fcs = (fcs >> 1) ^ 0xE0 if fcs & 1 else fcs >> 1
    return (0xFF - fcs) == frame[-1]


class RfcommRig(DynRig):
    name = "rfcomm"
    psm = rfcomm.RFCOMM_PSM
    classes = DynRig.classes + ("rfc_len_ea", "rfc_bad_fcs", "rfc_unknown_dlci", "rfc_mcc", "rfc_disc")

    def prepare_victim(self):
        self.victim_dlcs = []
        self.server = rfcomm.Server(self.victim)
        self.channel_number = self.server.listen(self.on_victim_dlc)

    def on_victim_dlc(self, dlc):
        self.victim_dlcs.append(dlc)
        dlc.sink = lambda data: dlc.write(b"echo:" + data)

    async def open_channel(self):
        self.closed_by_harness = False
        self.client = rfcomm.Client(self.ac)
        self.mux = await asyncio.wait_for(self.client.start(), 10)
        self.chan = self.client.l2cap_channel
        inner = self.chan.sink

        def tee(pdu):
            self.rx.append(bytes(pdu))
            inner(pdu)

        self.chan.sink = tee
        self.dlc = await asyncio.wait_for(self.mux.open_dlc(self.channel_number), 10)
        self.dlc_rx = []
        self.dlc.sink = lambda data: self.dlc_rx.append(bytes(data))

    def chan_open(self):
        return (not self.closed_by_harness and self.l2cap_open() and self.mux.state == rfcomm.Multiplexer.State.CONNECTED
                and self.dlc.state == rfcomm.DLC.State.CONNECTED)

    async def reopen(self):
        # a clean new session: close the L2CAP channel of the old multiplexer, then connect again
        try:
            if self.l2cap_open():
                await asyncio.wait_for(self.chan.disconnect(), 10)
            await self.open_channel()
        except Exception as e:
            self.reopen_error = f"{type(e).__name__}: {e}"
            return False
        return True

    def rfc_frames(self):
        d = self.dlc.dlci
        r = self.rng
        F = rfcomm.RFCOMM_Frame
        out = [F.sabm(1, d ^ 2), F.ua(1, d), F.dm(1, d ^ 4), F.uih(1, d, mu.rand_bytes(r, r.randint(1, 30))),
               F.uih(1, d, bytes([r.randint(0, 20)]) + mu.rand_bytes(r, r.randint(0, 10)), p_f=1), F.uih(1, d, b"", p_f=0),
               F.uih(1, 0, F.make_mcc(rfcomm.MccType.MSC, 1, bytes(rfcomm.RFCOMM_MCC_MSC(d, 0, 1, 1, 0, 1)))),
               F.uih(1, 0, F.make_mcc(rfcomm.MccType.PN, 1, bytes(rfcomm.RFCOMM_MCC_PN(d ^ 2, 0xF0, 7, 0, 100, 0, 7)))),
               F.uih(1, d, mu.rand_bytes(r, 200))]
        return [(f"f{i}", bytes(f)) for i, f in enumerate(out)]

    def corpus(self):
        return self.rfc_frames()

    def len_fields(self, pdu):
        return ((2, 1, "little"),)

    def gen_rfc_len_ea(self):
        d = self.dlc.dlci
        addr = (d << 2) | 2 | 1
        info = mu.rand_bytes(self.rng, self.rng.choice([0, 1, 5, 130]))
        n = len(info)
        how = self.rng.randrange(6)
        if how == 0:  # EA = 0 but only one length byte
            length = bytes([(n << 1) & 0xFE])
        elif how == 1:  # two-byte form for a short payload
            length = bytes([(n & 0x7F) << 1, n >> 7])
        elif how == 2:  # one-byte form that lies
            length = bytes([((n + self.rng.randint(1, 60)) & 0x7F) << 1 | 1])
        elif how == 3:  # two-byte form that lies
            length = bytes([0xFE, 0xFF])
        elif how == 4:  # frame ends inside the length field
            return bytes([addr, 0xEF, 0x00])
        else:  # address byte with EA = 0
            addr &= 0xFE
            length = bytes([n << 1 & 0xFF | 1])
        ctrl = self.rng.choice([0xEF, 0xFF])
        return bytes([addr, ctrl]) + length + info + bytes([rfcomm.compute_fcs(bytes([addr, ctrl]))])

    def gen_rfc_bad_fcs(self):
        f = bytearray(self.pick())
        f[-1] ^= 1 << self.rng.randrange(8)
        return bytes(f)

    def gen_rfc_unknown_dlci(self):
        d = self.rng.choice([1, 5, 9, 30, 61, 62, 63])
        F = rfcomm.RFCOMM_Frame
        return bytes(self.rng.choice([F.uih(1, d, b"hello"), F.disc(1, d), F.ua(1, d), F.uih(1, d, b"\x05x", p_f=1), F.sabm(1, d)]))

    def gen_rfc_mcc(self):
        r = self.rng
        F = rfcomm.RFCOMM_Frame
        mcc = r.choice([
            bytes([r.choice([0x23, 0x13, 0x53, 0x93, 0xE3, 0xFF, 0x01]), 0x01]),  # known / unknown types, no value
            F.make_mcc(rfcomm.MccType.PN, 1, mu.rand_bytes(r, r.choice([0, 3, 7]))),  # PN too short
            F.make_mcc(rfcomm.MccType.MSC, 1, mu.rand_bytes(r, r.choice([0, 1]))),  # MSC too short
            F.make_mcc(rfcomm.MccType.PN, 0, bytes(rfcomm.RFCOMM_MCC_PN(self.dlc.dlci, 0xF0, 7, 0, 100, 0, 7))),  # PN response nobody asked for
            F.make_mcc(rfcomm.MccType.MSC, 1, bytes([(61 << 2) | 3, 0x8D])),  # MSC for a DLCI that does not exist
            bytes([0x83, 0x00, 0x00]),  # two-byte length form
            b"",
        ])
        return bytes(F.uih(1, 0, mcc))

    def gen_rfc_disc(self):
        self.closed_by_harness = True
        d = self.rng.choice([0, self.dlc.dlci])
        return bytes(rfcomm.RFCOMM_Frame.disc(1, d))

    def disc_of(self, cls, unit):
        if cls in ("chan_disc", "rfc_disc"):
            return "chan"
        for target, f in unit:
            if target == "chan" and len(f) >= 4 and f[1] & 0xEF == 0x43 and f[0] & 1 and (f[0] >> 2) in (0, self.dlc.dlci) and rfcomm_fcs_ok(f):
                self.closed_by_harness = True
                return "chan"  # a mutated frame that happens to be a valid DISC
        return "none"

    async def probe(self):
        n0 = len(self.dlc_rx)
        if self.dlc.state != rfcomm.DLC.State.CONNECTED:
            return False, f"attacking side's DLC is {self.dlc.state.name}"
        self.dlc.write(b"C17-ping")
        got = await self.wait_for(lambda: b"".join(self.dlc_rx[n0:]) == b"echo:C17-ping")
        if not got:
            return False, f"data sent on the open DLC was not echoed by the victim application; received {b''.join(self.dlc_rx[n0:])!r}"
        return True, ""


def ag_configuration():
    return hfp.AgConfiguration(
        supported_ag_features=[hfp.AgFeature.HF_INDICATORS, hfp.AgFeature.IN_BAND_RING_TONE_CAPABILITY, hfp.AgFeature.REJECT_CALL,
                               hfp.AgFeature.CODEC_NEGOTIATION, hfp.AgFeature.ESCO_S4_SETTINGS_SUPPORTED,
                               hfp.AgFeature.ENHANCED_CALL_STATUS, hfp.AgFeature.THREE_WAY_CALLING],
        supported_ag_indicators=[hfp.AgIndicatorState.call(), hfp.AgIndicatorState.service(), hfp.AgIndicatorState.callsetup(),
                                 hfp.AgIndicatorState.callheld(), hfp.AgIndicatorState.signal(), hfp.AgIndicatorState.roam(),
                                 hfp.AgIndicatorState.battchg()],
        supported_hf_indicators=[hfp.HfIndicator.ENHANCED_SAFETY, hfp.HfIndicator.BATTERY_LEVEL],
        supported_ag_call_hold_operations=[hfp.CallHoldOperation.RELEASE_ALL_HELD_CALLS, hfp.CallHoldOperation.RELEASE_ALL_ACTIVE_CALLS,
                                           hfp.CallHoldOperation.HOLD_ALL_ACTIVE_CALLS],
        supported_audio_codecs=[hfp.AudioCodec.CVSD, hfp.AudioCodec.MSBC])


def hf_configuration():
    return hfp.HfConfiguration(
        supported_hf_features=[hfp.HfFeature.CODEC_NEGOTIATION, hfp.HfFeature.ESCO_S4_SETTINGS_SUPPORTED, hfp.HfFeature.HF_INDICATORS,
                               hfp.HfFeature.ENHANCED_CALL_STATUS, hfp.HfFeature.THREE_WAY_CALLING, hfp.HfFeature.CLI_PRESENTATION_CAPABILITY],
        supported_hf_indicators=[hfp.HfIndicator.ENHANCED_SAFETY, hfp.HfIndicator.BATTERY_LEVEL],
        supported_audio_codecs=[hfp.AudioCodec.CVSD, hfp.AudioCodec.MSBC])


AT_CLASSES = ("valid", "trunc", "extend", "bitflip", "random", "at_quote", "at_empty", "at_unknown", "at_arity", "at_nonutf8",
              "at_paren", "at_multi", "chan_disc")


class HfpAgRig(RfcommRig):
    """victim = AgProtocol on the DLC; the attacking side writes raw bytes into the AT stream (through bumble's own
    RFCOMM, i.e. as a well-behaved RFCOMM peer)"""
    name = "hfp_ag"
    classes = AT_CLASSES
    TERM = b"\r"

    def on_victim_dlc(self, dlc):
        self.victim_dlcs.append(dlc)
        self.ag = hfp.AgProtocol(dlc, ag_configuration())

    async def open_channel(self):
        await super().open_channel()
        self.tail = b""
        # service level connection, by hand
        for line in (b"AT+BRSF=1023\r", b"AT+BAC=1,2\r", b"AT+CIND=?\r", b"AT+CIND?\r", b"AT+CMER=3,0,0,1\r", b"AT+CHLD=?\r"):
            n0 = len(self.dlc_rx)
            self.dlc.write(line)
            ok = await self.wait_for(lambda: b"\r\nOK\r\n" in b"".join(self.dlc_rx[n0:]))
            if not ok:
                raise RigError(f"hfp_ag: service level connection step {line!r} not answered OK: {b''.join(self.dlc_rx[n0:])!r}")

    def send_chan(self, data):
        self.tail = (getattr(self, "tail", b"") + bytes(data))[-4:]
        self.dlc.write(data)

    LINES = [b"AT+BRSF=1023", b"AT+BAC=1,2", b"AT+CIND=?", b"AT+CIND?", b"AT+CMER=3,0,0,1", b"AT+CHLD=?", b"AT+CHLD=1", b"AT+BIND=1,2",
             b"AT+BIND=?", b"AT+BIND?", b"ATA", b"ATD1234567;", b"ATD>1;", b"AT+CHUP", b"AT+VGS=7", b"AT+VGM=15", b"AT+CLCC", b"AT+BIA=1,1,0,,1",
             b"AT+CMEE=1", b"AT+NREC=0", b"AT+BVRA=1", b"AT+CLIP=1", b"AT+CCWA=1", b"AT+COPS=3,0", b"AT+COPS?", b"AT+BIEV=2,90", b"AT+BCS=2",
             b"AT+BCC", b"AT+CNUM", b"AT+VTS=5", b"AT+BLDN", b"AT+BTRH?", b"AT+CKPD=200", b'AT+CPBS="ME"', b"AT+BINP=1"]

    def corpus(self):
        return [(l.decode(), l + self.TERM) for l in self.LINES]

    def line(self):
        return self.rng.choice(self.LINES)

    def wrap(self, text):
        return text + self.TERM

    def gen_at_quote(self):
        r = self.rng
        return self.wrap(r.choice([b'AT+CPBS="ME', b'AT+BINP="', b'AT+VGS="7', b'AT+CMER=3,"0,0,1', b'AT+X=a"b"', b'AT+CIND=""" ,"']))

    def gen_at_empty(self):
        return self.rng.choice([self.TERM, self.TERM * 3, b" " + self.TERM, b"\n" + self.TERM, b"\r\n\r\n"])

    def gen_at_unknown(self):
        r = self.rng
        return self.wrap(r.choice([b"HELLO", b"AT", b"AT+", b"AT+ZZZZ", b"AT+ZZZZ=1", b"ATZ", b"at+cind?", b"AT+cind?", b"AT+C1ND?", b"+CIND?", b"AT-CIND?", b"AT+FOO?", b"AT+FOO=?"]))

    def gen_at_arity(self):
        r = self.rng
        return self.wrap(r.choice([b"AT+CMER=3", b"AT+CMER=3,0,0,1,5,6", b"AT+VGS=", b"AT+VGS=1,2", b"AT+CHLD=", b"AT+BIEV=2", b"AT+BIEV=2,1,1",
                                    b"AT+BRSF=", b"AT+BRSF=a", b"AT+CMEE=1,2,3", b"AT+BIA=", b"AT+BCS=x", b"AT+CHUP=1", b"AT+CLCC=4", b"ATA=1",
                                    b"AT+BAC=", b"AT+BIND=a,b", b"AT+COPS=1", b"AT+CLIP=", b"AT+BVRA=9", b"AT+NREC=", b"AT+VTS=", b"AT+CHLD=9x"]))

    def gen_at_nonutf8(self):
        r = self.rng
        bad = r.choice([b"\xff\xfe", b"\xc3", b"\x80", b"\xe2\x82", b"\xf0\x9f\x98"])
        return self.wrap(r.choice([bad, b"AT+VGS=" + bad, b"AT+" + bad + b"?", b'AT+CPBS="' + bad + b'"', self.line() + bad]))

    def gen_at_paren(self):
        r = self.rng
        return self.wrap(r.choice([b"AT+CMER=1)", b"AT+CMER=(1", b"AT+CMER=((1,2)", b"AT+CIND=a(1)", b"AT+BIA=)(", b"AT+CHLD=(", b"AT+X=())", b"AT+VGS=1(2"]))

    def gen_at_multi(self):
        # several lines, some malformed, in one write
        r = self.rng
        gens = [self.gen_at_unknown, self.gen_at_paren, self.gen_at_nonutf8, self.gen_at_arity, lambda: self.wrap(self.line()), self.gen_at_empty]
        return b"".join(r.choice(gens)() for _ in range(r.randint(2, 4)))

    async def probe(self):
        # if the garbage ended in the middle of a line, the line terminator ends that line first; then the reference
        # request, in a write of its own
        if getattr(self, "tail", b"") and not self.tail.endswith(self.TERM):
            self.dlc.write(self.TERM)
            await asyncio.sleep(0.2)
        n0 = len(self.dlc_rx)
        self.dlc.write(b"AT+CIND?" + self.TERM)
        import re

        pat = re.compile(rb"\r\n\+CIND: ?\d(,\d)*\r\n\r\nOK\r\n")
        got = await self.wait_for(lambda: pat.search(b"".join(self.dlc_rx[n0:])))
        if not got:
            return False, f"AT+CIND? not answered with +CIND: .. / OK; received {b''.join(self.dlc_rx[n0:])!r}"
        return True, ""


class HfpHfRig(RfcommRig):
    """victim = HfProtocol (RFCOMM server side here); the attacking side plays a raw AG"""
    name = "hfp_hf"
    classes = AT_CLASSES

    def on_victim_dlc(self, dlc):
        self.victim_dlcs.append(dlc)
        self.hf = hfp.HfProtocol(dlc, hf_configuration())
        self.hf_events = []
        self.hf.on(self.hf.EVENT_AG_INDICATOR, lambda ind: self.hf_events.append((int(ind.indicator) if isinstance(ind.indicator, int) else str(ind.indicator), ind.current_status)))
        self.hf_task = asyncio.get_running_loop().create_task(self.hf.run())

    CIND_TEST = (b'\r\n+CIND: ("call",(0,1)),("service",(0,1)),("callsetup",(0-3)),("callheld",(0-2)),("signal",(0-5)),'
                 b'("roam",(0,1)),("battchg",(0-5))\r\n')

    async def open_channel(self):
        await super().open_channel()
        self.tail = b""
        self.auto = True
        self.at_seen = []
        self.dlc.sink = self.on_at
        ok = await self.wait_for(lambda: getattr(self.hf, "_slc_initialized", None) or b"AT+CHLD=?" in b"".join(self.at_seen) or self.hf_task.done(), timeout=20)
        await asyncio.sleep(0.5)
        if self.hf_task.done() or not ok:
            raise RigError(f"hfp_hf: service level connection did not complete; HF sent {self.at_seen}")

    def on_at(self, data):
        """a minimal well-behaved AG (the harness' own, not bumble's): answers the HF's commands"""
        self.at_seen.append(bytes(data))
        if not self.auto:
            return
        for line in bytes(data).split(b"\r"):
            line = line.strip()
            if not line:
                continue
            if line.startswith(b"AT+BRSF="):
                self.dlc.write(b"\r\n+BRSF: 1519\r\n\r\nOK\r\n")
            elif line == b"AT+CIND=?":
                self.dlc.write(self.CIND_TEST + b"\r\nOK\r\n")
            elif line == b"AT+CIND?":
                self.dlc.write(b"\r\n+CIND: 0,1,0,0,3,0,4\r\n\r\nOK\r\n")
            elif line == b"AT+CHLD=?":
                self.dlc.write(b"\r\n+CHLD: (0,1,2)\r\n\r\nOK\r\n")
            elif line == b"AT+BIND=?":
                self.dlc.write(b"\r\n+BIND: (1,2)\r\n\r\nOK\r\n")
            elif line == b"AT+BIND?":
                self.dlc.write(b"\r\n+BIND: 1,1\r\n\r\n+BIND: 2,1\r\n\r\nOK\r\n")
            else:
                self.dlc.write(b"\r\nOK\r\n")

    def send_chan(self, data):
        self.tail = (getattr(self, "tail", b"") + bytes(data))[-4:]
        self.dlc.write(data)

    RESULTS = [b"OK", b"ERROR", b"RING", b"+CIEV: 1,1", b"+CIEV: 5,3", b'+CLIP: "1234567",129', b"+BCS: 2", b"+VGS: 7", b"+VGM: 3", b"+BVRA: 1",
               b"+CME ERROR: 30", b"+CIND: 0,1,0,0,3,0,4", b"+CHLD: (0,1,2)", b"+BRSF: 1519", b'+CCWA: "1234567",129', b'+CLCC: 1,1,0,0,0,"1234567",129',
               b'+COPS: 0,0,"Bumble"', b"+BIND: 1,1", b"+BSIR: 1", b"NO CARRIER", b"BUSY", b'+CNUM: ,"5551212",129,,4', b"+BTRH: 0", b"+BINP: 1234"]

    def wrap(self, text):
        return b"\r\n" + text + b"\r\n"

    def corpus(self):
        return [(l.decode(), self.wrap(l)) for l in self.RESULTS]

    def line(self):
        return self.rng.choice(self.RESULTS)

    def gen_at_quote(self):
        return self.wrap(self.rng.choice([b'+CLIP: "1234567,129', b'+COPS: 0,0,"', b'+CLCC: 1,1,0,0,0,"123,129', b'+X: a"b"', b'+CNUM: ,"""']))

    def gen_at_empty(self):
        return self.rng.choice([b"\r\n", b"\r\n\r\n", b"\r\n\r\n\r\n", b"\r\n \r\n", b"\r", b"\n"])

    def gen_at_unknown(self):
        return self.wrap(self.rng.choice([b"HELLO", b"+ZZZZ: 1", b"+", b":", b"+CIEV", b"ok", b"+CIEV 1,1", b"CONNECT", b"+FOO: (", b"AT+CIND?"]))

    def gen_at_arity(self):
        return self.wrap(self.rng.choice([b"+CIEV: 1", b"+CIEV: ", b"+CIEV: 1,2,3", b"+CIEV: 99,1", b"+CIEV: 0,0", b"+CIEV: a,b", b"+BCS: ", b"+BCS: x", b"+VGS: ",
                                          b"+VGS: 1,2", b"+CLIP: ", b"+CLIP: 1", b"+BVRA: ", b"+BVRA: 77", b"+CME ERROR: ", b"+CME ERROR: x", b"+BCS: 99", b"+CIEV: -1,1"]))

    def gen_at_nonutf8(self):
        r = self.rng
        bad = r.choice([b"\xff\xfe", b"\xc3", b"\x80", b"\xe2\x82", b"\xf0\x9f\x98"])
        return self.wrap(r.choice([bad, b"+VGS: " + bad, b"+" + bad + b": 1", b'+CLIP: "' + bad + b'",129', bad + b": 1", self.line() + bad]))

    def gen_at_paren(self):
        return self.wrap(self.rng.choice([b"+CHLD: (0,1", b"+CHLD: 0,1)", b"+CIND: ((", b"+BIND: )(", b"+CIEV: (1),(1", b"+X: a(1)", b"+VGS: 1(2"]))

    def gen_at_multi(self):
        r = self.rng
        gens = [self.gen_at_unknown, self.gen_at_paren, self.gen_at_nonutf8, self.gen_at_arity, lambda: self.wrap(self.line()), self.gen_at_empty]
        return b"".join(r.choice(gens)() for _ in range(r.randint(2, 4)))

    async def probe(self):
        """reference: (1) the HF's own AT+CIND? query, answered by the AG side, completes with the reported values;
        (2) a well-formed unsolicited +CIEV after that is delivered as an ag_indicator event"""
        # if the garbage ended in the middle of a result code, the delimiter ends it first
        if getattr(self, "tail", b"") and not self.tail.endswith(b"\r\n"):
            self.dlc.write(b"\r\n")
            await asyncio.sleep(0.2)
        try:
            rsp = await asyncio.wait_for(self.hf.execute_command("AT+CIND?", timeout=5.0, response_type=hfp.AtResponseType.SINGLE), 30)
        except Exception as e:
            return False, f"HF query AT+CIND? answered by the AG with '+CIND: 0,1,0,0,3,0,4' / 'OK' ended with {type(e).__name__}: {e}"
        if rsp.code != "+CIND" or [bytes(p) for p in rsp.parameters] != [b"0", b"1", b"0", b"0", b"3", b"0", b"4"]:
            return False, f"HF query AT+CIND? returned {rsp}"
        n0 = len(self.hf_events)
        self.dlc.write(b"\r\n+CIEV: 5,2\r\n")
        got = await self.wait_for(lambda: self.hf_events[n0:])
        if not got:
            return False, "unsolicited '+CIEV: 5,2' did not produce an ag_indicator event" + (" (HfProtocol.run() has terminated)" if self.hf_task.done() else "")
        if got[0][1] != 2:
            return False, f"ag_indicator event {got[0]} for '+CIEV: 5,2'"
        return True, ""


# ----------------------------------------------------------------------------- LE credit based channel
class LeCocRig(Rig):
    name = "le_coc"
    fixed = False
    classes = mu.GENERIC + ("coc_sdu_len_lie", "coc_oversize", "coc_zero_credit_flood", "chan_disc")
    PSM = 0x0080

    def prepare_victim(self):
        self.victim_channels = []

        def on_channel(ch):
            self.victim_channels.append(ch)
            ch.sink = lambda sdu: ch.write(b"echo:" + sdu)

        self.victim.create_l2cap_server(l2cap.LeCreditBasedChannelSpec(psm=self.PSM, mtu=256, mps=64, max_credits=64), on_channel)

    def forward_to_attacker_stack(self, cid):
        return True

    async def open_channel(self):
        self.closed_by_harness = False
        self.dirty = False
        self.chan = await asyncio.wait_for(self.ac.create_l2cap_channel(l2cap.LeCreditBasedChannelSpec(psm=self.PSM, mtu=256, mps=64, max_credits=64)), 10)
        self.sdus = []
        self.chan.sink = lambda sdu: self.sdus.append(bytes(sdu))

    def send_chan(self, data):
        self.dirty = True
        self.ac.send_l2cap_pdu(self.chan.destination_cid, data)

    def stale(self):
        return self.dirty

    def chan_open(self):
        return not self.closed_by_harness and self.chan.state == l2cap.LeCreditBasedChannel.State.CONNECTED

    async def reopen(self):
        # a second channel of the same SPSM; the one garbage was sent on is left alone (if the harness sent a valid
        # Disconnection Request for it, the victim has closed it and answered; forget it locally)
        try:
            if self.closed_by_harness and self.chan.state == l2cap.LeCreditBasedChannel.State.CONNECTED:
                self.chan.abort()
            await self.open_channel()
        except Exception as e:
            self.reopen_error = f"{type(e).__name__}: {e}"
            return False
        return True

    def corpus(self):
        r = self.rng
        out = []
        for n in (0, 1, 5, 20, 62):
            sdu = mu.rand_bytes(r, n)
            out.append((f"sdu{n}", struct.pack("<H", n) + sdu))
        return out

    def len_fields(self, pdu):
        return ((0, 2, "little"),)

    def gen_coc_sdu_len_lie(self):
        r = self.rng
        return r.choice([b"", b"\x05", struct.pack("<H", 200) + b"abc", struct.pack("<H", 0xFFFF) + b"abc", struct.pack("<H", 2) + b"abcdef",
                         struct.pack("<H", 257) + bytes(62), struct.pack("<H", 0) + b"x"])

    def gen_coc_oversize(self):
        return struct.pack("<H", 10) + mu.rand_bytes(self.rng, self.rng.choice([65, 100, 300, 1000]))  # larger than the MPS

    def gen_coc_zero_credit_flood(self):
        # signalling: credits that overflow 65535 / zero credits for the channel
        r = self.rng
        cr = l2cap.L2CAP_LE_Flow_Control_Credit(identifier=self.next_ident(), cid=self.chan.source_cid, credits=r.choice([0, 0xFFFF, 0xFF00]))
        return [("sig", bytes(cr))]

    def gen_chan_disc(self):
        self.closed_by_harness = True
        req = l2cap.L2CAP_Disconnection_Request(identifier=self.next_ident(), destination_cid=self.chan.destination_cid, source_cid=self.chan.source_cid)
        return [("sig", bytes(req))]

    def disc_of(self, cls, unit):
        return "chan" if cls == "chan_disc" else "none"

    async def probe(self):
        n0 = len(self.sdus)
        self.chan.write(b"C17-ping")
        got = await self.wait_for(lambda: self.sdus[n0:])
        if not got:
            return False, "SDU written on the open LE credit based channel was not echoed by the victim application"
        if got[0] != b"echo:C17-ping":
            return False, f"echo {got[0]!r}"
        return True, ""


# ----------------------------------------------------------------------------- HCI entry point of the Host
def hci_valid_disconnect(pkt, handle):
    """independent reading of the bytes: Disconnection Complete, status 0, our handle"""
    return len(pkt) == 7 and pkt[0] == 0x04 and pkt[1] == 0x05 and pkt[2] == 4 and pkt[3] == 0 and (pkt[4] | pkt[5] << 8) & 0x0FFF == handle


class HciRig(AttRig):
    """the victim's own controller is the hostile party: packets are injected at the Host's HCI sink"""
    name = "hci"
    allow_stream = False  # units are whole (possibly malformed) HCI packets: there is no byte stream to re-frame
    classes = ("evt_valid", "evt_trunc", "evt_extend", "evt_bitflip", "evt_badlen", "evt_unknown", "random",
               "acl_cont_orphan", "acl_start_short", "acl_excess", "acl_start_start", "acl_bad_handle", "acl_bad_l2cap_len", "acl_pb_reserved",
               "iso_bad", "sco_bad", "pkt_unknown_type", "evt_disconnect")

    def send_unit(self, unit):
        for target, data in unit:
            self.net.stacks[1].tap.inject_to_host(data)

    def events(self):
        if hasattr(self, "_events"):
            return self._events
        classes = list(hci.HCI_Event.event_classes.values()) + list(hci.HCI_LE_Meta_Event.subevent_classes.values())
        out = []
        for c in sorted(classes, key=lambda c: c.__name__):
            if c.__name__ in ("HCI_Disconnection_Complete_Event",):
                continue  # the valid disconnect has a class of its own
            for _ in range(2):
                try:
                    b = bytes(auto_build(c, self.rng, ints=(0, 1, 2, self.vhandle, 0x0EEE, 0xFF), size=8))
                    hci.HCI_Packet.from_bytes(b)
                    out.append((c.__name__, b))
                except Exception:
                    continue
        if len(out) < 60:
            raise RigError(f"hci: only {len(out)} valid events could be built")
        self._events = out
        return out

    def ev(self):
        return self.rng.choice(self.events())[1]

    def gen_evt_valid(self):
        return self.ev()

    def gen_evt_trunc(self):
        return mu.trunc(self.rng, self.ev())

    def gen_evt_extend(self):
        return mu.extend(self.rng, self.ev())

    def gen_evt_bitflip(self):
        return mu.bitflip(self.rng, self.ev())

    def gen_evt_badlen(self):
        e = self.ev()
        fields = [(2, 1, "little")]
        if e[1] == 0x3E and len(e) > 5:
            fields.append((4, 1, "little"))  # num reports / first field of the LE meta event
        return mu.badlen(self.rng, e, fields)

    def gen_evt_unknown(self):
        r = self.rng
        code = r.choice([0x00, 0x21, 0x2A, 0x3D, 0x4F, 0x58, 0x7F, 0xFE, 0xFF, 0x3E])
        params = mu.rand_bytes(r, r.choice([0, 1, 3, 8, 30]))
        if code == 0x3E:
            params = bytes([r.choice([0x00, 0x26, 0x30, 0x7F, 0xFF])]) + params
        return bytes([0x04, code, len(params)]) + params

    def gen_random(self):
        return bytes([self.rng.choice([1, 2, 3, 4, 5])]) + mu.random_unit(self.rng)

    # ACL: L2CAP PDU carrying an ATT Read Request, fragmented by hand
    def acl(self, pb, data, handle=None, bc=0, length=None):
        handle = self.vhandle if handle is None else handle
        return bytes([0x02]) + struct.pack("<HH", handle | pb << 12 | bc << 14, len(data) if length is None else length) + data

    def l2cap_pdu(self, payload=None, cid=att.ATT_CID):
        payload = bytes(att.ATT_Read_Request(attribute_handle=self.ro.handle)) + b"" if payload is None else payload
        return struct.pack("<HH", len(payload), cid) + payload

    def gen_acl_cont_orphan(self):
        return [("chan", self.acl(1, mu.rand_bytes(self.rng, self.rng.randint(1, 27)))) for _ in range(self.rng.randint(1, 3))]

    def gen_acl_start_short(self):
        return self.acl(2, self.l2cap_pdu()[: self.rng.randint(0, 3)])

    def gen_acl_excess(self):
        pdu = self.l2cap_pdu(bytes([0x12]) + struct.pack("<H", self.rw.handle) + mu.rand_bytes(self.rng, 10))
        cut = self.rng.randint(4, len(pdu) - 1)
        return [("chan", self.acl(2, pdu[:cut])), ("chan", self.acl(1, pdu[cut:] + mu.rand_bytes(self.rng, self.rng.randint(1, 40))))]

    def gen_acl_start_start(self):
        pdu = self.l2cap_pdu(bytes([0x12]) + struct.pack("<H", self.rw.handle) + mu.rand_bytes(self.rng, 10))
        cut = self.rng.randint(4, len(pdu) - 1)
        return [("chan", self.acl(2, pdu[:cut]))] * self.rng.randint(1, 2)

    def gen_acl_bad_handle(self):
        return self.acl(2, self.l2cap_pdu(), handle=self.rng.choice([0x000, 0x0EEE, 0x0FFF, self.vhandle + 1]))

    def gen_acl_bad_l2cap_len(self):
        pdu = bytearray(self.l2cap_pdu())
        struct.pack_into("<H", pdu, 0, self.rng.choice([0, 1, 2, 0x00FF, 0xFFFF, 0xFFFB]))
        return self.acl(2, bytes(pdu))

    def gen_acl_pb_reserved(self):
        r = self.rng
        how = r.randrange(3)
        if how == 0:
            return self.acl(r.choice([0, 3]), self.l2cap_pdu(), bc=r.randrange(4))
        if how == 1:  # HCI length field disagrees with the data
            return self.acl(2, self.l2cap_pdu(), length=r.choice([0, 1, 200, 0xFFFF]))
        return bytes([0x02]) + mu.rand_bytes(r, r.randint(0, 3))  # shorter than the ACL header

    def gen_iso_bad(self):
        r = self.rng
        h = r.choice([self.vhandle, 0x0EEE, 0x0060])
        body = mu.rand_bytes(r, r.choice([0, 1, 3, 4, 7, 8, 12, 40]))
        return bytes([0x05]) + struct.pack("<HH", h | r.randrange(4) << 12 | r.randrange(2) << 14, r.choice([len(body), 0, 0x3FFF, len(body) + 5])) + body

    def gen_sco_bad(self):
        r = self.rng
        body = mu.rand_bytes(r, r.choice([0, 1, 48, 60]))
        return bytes([0x03]) + struct.pack("<HB", r.choice([self.vhandle, 0x0EEE]) | r.randrange(4) << 12, r.choice([len(body), 0, 255])) + body

    def gen_pkt_unknown_type(self):
        r = self.rng
        return bytes([r.choice([0x00, 0x06, 0x07, 0x09, 0x10, 0x7F, 0xFF])]) + mu.rand_bytes(r, r.choice([0, 1, 4, 20]))

    def gen_evt_disconnect(self):
        return bytes(hci.HCI_Disconnection_Complete_Event(status=0, connection_handle=self.vhandle, reason=0x13))

    def disc_of(self, cls, unit):
        if any(hci_valid_disconnect(d, self.vhandle) for _, d in unit):
            return "conn"
        return "none"

    async def probe(self):
        tap = self.net.stacks[1].tap

        def outgoing_att():
            out = []
            for d, p in tap.log:
                if d == "h2c" and p[0] == 0x02 and len(p) >= 9 and (p[1] | p[2] << 8) & 0x0FFF == self.vhandle and p[7] | p[8] << 8 == att.ATT_CID:
                    out.append(p[9:])
            return out

        # (1) a complete L2CAP PDU in one start fragment: ATT Read Request, as if received from the peer
        ok, why = await self.att_probe(lambda b: tap.inject_to_host(self.acl(2, self.l2cap_pdu(b))), outgoing_att)
        if not ok:
            return ok, "via injected ACL data: " + why
        # (2) the command path of the Host still works against its (real) controller
        try:
            rsp = await asyncio.wait_for(self.victim.host.send_command(hci.HCI_Read_BD_ADDR_Command()), 30)
        except Exception as e:
            return False, f"HCI_Read_BD_ADDR_Command after the injected packets ended with {type(e).__name__}: {e}"
        return True, ""


RIGS = {r.name: r for r in (AttRig, SmpRig, LeSigRig, ClassicSigRig, SdpRig, RfcommRig, HfpAgRig, HfpHfRig, AvdtpRig, AvctpRig, LeCocRig, HciRig)}
