"""C16 rig: catalogue of awaited procedures on real Devices (lib.rig.Net), a cut at message
boundary k, 120 virtual seconds, then the measured connection tables and registries.

One `run_scenario()` = one trace for specs/Stack/TeardownTrace.tla.

Topology (same as the spec): stack A (index 0) holds link 1 to B (index 1) - the link the
procedure runs on - and link 2 to C (index 2), a bystander.  A message boundary is every HCI
packet recorded at the taps of A and B in either direction (ACL data out of a host, ACL data
into a host, commands, events) while the operation is outstanding.  The cut is made from the
event loop (never re-entrantly from inside a send) at the first iteration after boundary k.
"""
from __future__ import annotations

import asyncio

from lib import rig

DEVS = "ABC"
GHOST = 9
SETTLE = 2.0  # virtual seconds to let set-up traffic and its completions drain
AFTER = 120.0  # virtual seconds after the cut: beyond every protocol time-out (GATT 30 s)
KINDS = ("local_disconnect", "remote_disconnect", "transport_loss")

SVC_UUID = "AAAA0000-0000-1000-8000-00805F9B34FB"
CH_SHORT = "AAAA0001-0000-1000-8000-00805F9B34FB"
CH_LONG = "AAAA0002-0000-1000-8000-00805F9B34FB"
CH_WRITE = "AAAA0003-0000-1000-8000-00805F9B34FB"
CH_IND = "AAAA0004-0000-1000-8000-00805F9B34FB"
LE_PSM = 0x81
CLASSIC_PSM = 0x1001


# ----------------------------------------------------------------------------- projections
def _handles_of_keys(d):
    out = []
    for key in list(d.keys()):
        if isinstance(key, int):
            out.append(key)
            continue
        h = getattr(key, "handle", None)
        if h is None:
            conn = getattr(key, "connection", None)
            h = getattr(conn, "handle", None)
        out.append(h if isinstance(h, int) else -1)
    return out


def tables_of(stack):
    c = stack.controller
    ctrl = []
    for name in ("le_connections", "classic_connections"):
        for conn in list(getattr(c, name, {}).values()):
            ctrl.append(conn.handle)
    return {
        "ctrl": sorted(ctrl),
        "host": sorted(stack.host.connections.keys()),
        "device": sorted(stack.device.connections.keys()),
    }


def registries_of(stack, extra=None, le_coc_owner=None):
    """name -> handles a registry mentions.  Public attributes; private ones are optional
    (missing -> that registry is simply not observed)."""
    dev = stack.device
    out = {}
    gs = getattr(dev, "gatt_server", None)
    if gs is not None:
        if hasattr(gs, "subscribers"):
            out["gatt_subscribers"] = _handles_of_keys(gs.subscribers)
        ind = []
        if hasattr(gs, "pending_confirmations"):
            ind += _handles_of_keys(gs.pending_confirmations)
        if hasattr(gs, "indication_semaphores"):
            ind += _handles_of_keys(gs.indication_semaphores)
        out["gatt_indications"] = ind
    sm = getattr(dev, "smp_manager", None)
    if sm is not None and hasattr(sm, "sessions"):
        out["smp_sessions"] = _handles_of_keys(sm.sessions)
    cm = getattr(dev, "l2cap_channel_manager", None)
    if cm is not None:
        ch = []
        if hasattr(cm, "channels"):
            ch += _handles_of_keys(cm.channels)
        if hasattr(cm, "le_coc_channels"):
            ch += _handles_of_keys(cm.le_coc_channels)
        out["l2cap_channels"] = ch
        if hasattr(cm, "identifiers"):
            out["l2cap_identifiers"] = _handles_of_keys(cm.identifiers)
        if hasattr(cm, "pending_credit_based_connections"):
            out["l2cap_pending_connections"] = _handles_of_keys(cm.pending_credit_based_connections)
        # requests are keyed by identifier only; the one LE CoC request of a scenario is made
        # on `le_coc_owner`, so a left-over entry is state of that connection
        if hasattr(cm, "le_coc_requests") and le_coc_owner is not None:
            out["l2cap_le_coc_requests"] = [le_coc_owner] if len(cm.le_coc_requests) else []
    # queued outbound data: packets waiting in the host or counted in flight
    q = []
    host = stack.host
    seen = set()
    for qn in ("acl_packet_queue", "le_acl_packet_queue"):
        queue = getattr(host, qn, None)
        if queue is None or id(queue) in seen:
            continue
        seen.add(id(queue))
        st = getattr(queue, "_connection_state", None)
        pk = getattr(queue, "_packets", None)
        if st is not None and pk is not None:
            q += [h for h, s in list(st.items()) if getattr(s, "in_flight", 0) > 0]
            q += [h for (_, h) in list(pk)]
        elif getattr(queue, "pending", 0) > 0:
            q.append(-1)
    out["data_queue"] = q
    for name, fn in (extra or {}).items():
        out[name] = list(fn())
    return {k: sorted(set(v)) for k, v in out.items()}


def classify(exc):
    """outcome class of a finished awaitable (DESIGN Appendix D: a time-out is an error)."""
    if exc is None:
        return "result", ""
    if isinstance(exc, asyncio.CancelledError):
        return "error", "cancelled"
    return "error", type(exc).__name__


def stuck_frame(task):
    """innermost coroutine an unfinished task is suspended in (diagnostics / signature only)"""
    try:
        co = task.get_coro()
        name = getattr(co, "__qualname__", "?")
        for _ in range(50):
            nxt = getattr(co, "cr_await", None)
            if nxt is None or not hasattr(nxt, "cr_code"):
                break
            co = nxt
            name = getattr(co, "__qualname__", name)
        return name
    except Exception:
        return "?"


# ----------------------------------------------------------------------------- scenario context
class Ctx:
    """what a procedure sees: the net, both ends of link 1, its caller"""

    def __init__(self, net, conns):
        self.net = net
        self.A, self.B, self.C = net[0], net[1], (net[2] if len(net.stacks) > 2 else None)
        self.conn = conns  # conn[("A",1)] = Connection object of link 1 on A ...
        self.extra = {0: {}, 1: {}, 2: {}}  # extra registries per stack index
        self.le_coc_owner = None
        self.keep = []


class Proc:
    name = ""
    transport = "le"
    caller = 0  # index of the stack that awaits the operation
    cut_delay = 0.0  # virtual seconds between boundary k and the cut (0: next loop iteration)

    async def setup(self, cx):
        pass

    async def op(self, cx):
        raise NotImplementedError


def _gatt_service():
    from bumble import gatt

    P = gatt.Characteristic.Properties
    rw = gatt.Characteristic.READABLE | gatt.Characteristic.WRITEABLE
    chars = [
        gatt.Characteristic(CH_SHORT, P.READ, rw, bytes([1, 2, 3, 4])),
        gatt.Characteristic(CH_LONG, P.READ, rw, bytes(range(60))),
        gatt.Characteristic(CH_WRITE, P.READ | P.WRITE, rw, bytes(4)),
        gatt.Characteristic(CH_IND, P.READ | P.INDICATE, rw, bytes([7])),
    ]
    return gatt.Service(SVC_UUID, chars), chars


class _Gatt(Proc):
    discover = True

    async def setup(self, cx):
        from bumble.device import Peer

        self.peer = Peer(cx.conn[("A", 1)])
        if self.discover:
            await self.peer.discover_services()
            await self.peer.discover_characteristics()

    def char(self, uuid):
        from bumble.core import UUID

        return self.peer.get_characteristics_by_uuid(UUID(uuid))[0]


class GattRead(_Gatt):
    name = "gatt_read"

    async def op(self, cx):
        return await self.char(CH_SHORT).read_value()


class GattLongRead(_Gatt):
    name = "gatt_long_read"

    async def op(self, cx):
        v = await self.char(CH_LONG).read_value()
        assert len(v) == 60, len(v)
        return v


class GattWrite(_Gatt):
    name = "gatt_write"

    async def op(self, cx):
        return await self.char(CH_WRITE).write_value(bytes([9, 9, 9, 9]), with_response=True)


class GattDiscovery(_Gatt):
    name = "gatt_discovery"
    discover = False

    async def op(self, cx):
        await self.peer.discover_services()
        await self.peer.discover_characteristics()
        for s in self.peer.services:
            for c in s.characteristics:
                await c.discover_descriptors()
        return len(self.peer.services)


class GattIndicate(_Gatt):
    name = "gatt_indicate"
    caller = 1

    async def setup(self, cx):
        await super().setup(cx)
        await self.char(CH_IND).subscribe(lambda v: None, prefer_notify=False)

    async def op(self, cx):
        return await cx.B.indicate_subscribers(cx.gatt_chars[3])


class _Pair(Proc):
    sc = False

    async def setup(self, cx):
        from bumble.pairing import PairingConfig, PairingDelegate

        for d in (cx.A, cx.B):
            cfg = PairingConfig(sc=self.sc, mitm=False, bonding=True, delegate=PairingDelegate())
            d.pairing_config_factory = (lambda c: (lambda connection: c))(cfg)

    async def op(self, cx):
        return await cx.conn[("A", 1)].pair()


class PairLegacy(_Pair):
    name = "pair_legacy"


class PairSc(_Pair):
    name = "pair_sc"
    sc = True


async def user_prompt_wait(answers):
    if answers:
        await asyncio.sleep(5.0)
        return True
    await asyncio.get_running_loop().create_future()  # the user walked away


class PairPrompt(Proc):
    """SC numeric comparison; the user of A is asked and (in the cut runs) never answers: the prompt
    is an operation waiting on the connection, it has to be cancelled when the link goes"""

    name = "pair_user_prompt"
    cut_delay = 1.0  # the cut falls into the gap after boundary k (the prompt is a gap without traffic)

    async def setup(self, cx):
        from bumble.pairing import PairingConfig, PairingDelegate

        sc = cx.scenario
        io = PairingDelegate.IoCapability.DISPLAY_OUTPUT_AND_YES_NO_INPUT

        class Asking(PairingDelegate):
            async def compare_numbers(self, number, digits):
                return await sc.track_inline("user_prompt", user_prompt_wait(sc.kind is None), "A", 1)

        cx.A.pairing_config_factory = lambda connection: PairingConfig(sc=True, mitm=True, bonding=True, delegate=Asking(io))
        cx.B.pairing_config_factory = lambda connection: PairingConfig(sc=True, mitm=True, bonding=True, delegate=PairingDelegate(io))

    async def op(self, cx):
        return await cx.conn[("A", 1)].pair()


class LeCocConnect(Proc):
    name = "l2cap_le_connect"

    async def setup(self, cx):
        from bumble import l2cap

        self.accepted = []
        cx.B.create_l2cap_server(spec=l2cap.LeCreditBasedChannelSpec(psm=LE_PSM, max_credits=4, mtu=64, mps=32),
                                 handler=self.accepted.append)
        cx.le_coc_owner = 1

    async def op(self, cx):
        from bumble import l2cap

        return await cx.conn[("A", 1)].create_l2cap_channel(spec=l2cap.LeCreditBasedChannelSpec(psm=LE_PSM, max_credits=4, mtu=64, mps=32))


class LeCocDisconnect(LeCocConnect):
    name = "l2cap_le_disconnect"

    async def setup(self, cx):
        await super().setup(cx)
        self.channel = await LeCocConnect.op(self, cx)

    async def op(self, cx):
        return await self.channel.disconnect()


class LeCocDrain(LeCocDisconnect):
    name = "l2cap_le_drain"

    async def op(self, cx):
        self.accepted[0].sink = lambda data: None
        self.channel.write(bytes(400))
        return await self.channel.drain()


class QueueDrain(Proc):
    """outbound data queued in the host (2 controller buffers), then DataPacketQueue.drain"""

    name = "data_queue_drain"

    async def op(self, cx):
        c = cx.conn[("A", 1)]
        for i in range(6):
            c.send_l2cap_pdu(0x0004, bytes([0x52, 0x30, 0x00, i]))  # ATT Write Command, unknown handle
        q = c.data_packet_queue
        return await q.drain(c.handle)


class HciCommand(Proc):
    name = "hci_command"

    async def op(self, cx):
        return await cx.conn[("A", 1)].get_phy()


class HciRemoteFeatures(Proc):
    """an HCI command whose result arrives in a later event"""

    name = "hci_remote_features"

    async def op(self, cx):
        return await cx.A.get_remote_le_features(cx.conn[("A", 1)])


class ClassicConnect(Proc):
    name = "l2cap_classic_connect"
    transport = "classic"

    async def setup(self, cx):
        from bumble import l2cap

        self.accepted = []
        cx.B.create_l2cap_server(spec=l2cap.ClassicChannelSpec(psm=CLASSIC_PSM), handler=self.accepted.append)

    async def op(self, cx):
        from bumble import l2cap

        return await cx.conn[("A", 1)].create_l2cap_channel(spec=l2cap.ClassicChannelSpec(psm=CLASSIC_PSM))


class ClassicDisconnect(ClassicConnect):
    name = "l2cap_classic_disconnect"

    async def setup(self, cx):
        await super().setup(cx)
        self.channel = await ClassicConnect.op(self, cx)

    async def op(self, cx):
        return await self.channel.disconnect()


class RfcommOpen(Proc):
    name = "rfcomm_open"
    transport = "classic"

    async def setup(self, cx):
        from bumble import rfcomm

        self.dlcs = []
        self.server = rfcomm.Server(cx.B)
        self.channel = self.server.listen(acceptor=self.dlcs.append)

    async def op(self, cx):
        from bumble import rfcomm

        mux = await rfcomm.Client(cx.conn[("A", 1)]).start()
        return await mux.open_dlc(self.channel)


class SdpSearch(Proc):
    name = "sdp_search"
    transport = "classic"

    async def setup(self, cx):
        from bumble import sdp
        from bumble.core import BT_L2CAP_PROTOCOL_ID, UUID

        self.uuid = UUID("E6D55659-C8B4-4B85-96BB-B1143AF6D3AE")
        recs = {}
        for i in range(3):
            h = 0x00010001 + i
            recs[h] = [
                sdp.ServiceAttribute(sdp.SDP_SERVICE_RECORD_HANDLE_ATTRIBUTE_ID, sdp.DataElement.unsigned_integer_32(h)),
                sdp.ServiceAttribute(sdp.SDP_SERVICE_CLASS_ID_LIST_ATTRIBUTE_ID, sdp.DataElement.sequence([sdp.DataElement.uuid(self.uuid)])),
                sdp.ServiceAttribute(sdp.SDP_PROTOCOL_DESCRIPTOR_LIST_ATTRIBUTE_ID,
                                     sdp.DataElement.sequence([sdp.DataElement.sequence([sdp.DataElement.uuid(BT_L2CAP_PROTOCOL_ID)])])),
            ]
        cx.B.sdp_server.service_records.update(recs)

    async def op(self, cx):
        from bumble import sdp

        client = sdp.Client(cx.conn[("A", 1)])
        await client.connect()
        r = await client.search_attributes([self.uuid], [(0x0000, 0xFFFF)])
        await client.disconnect()
        return len(r)


class AvdtpDiscover(Proc):
    name = "avdtp_discover"
    transport = "classic"

    async def setup(self, cx):
        from bumble import a2dp, avdtp

        I = a2dp.SbcMediaCodecInformation
        caps = avdtp.MediaCodecCapabilities(
            media_type=avdtp.MediaType.AUDIO,
            media_codec_type=a2dp.CodecType.SBC,
            media_codec_information=I(
                sampling_frequency=I.SamplingFrequency.SF_44100, channel_mode=I.ChannelMode.JOINT_STEREO,
                block_length=I.BlockLength.BL_16, subbands=I.Subbands.S_8,
                allocation_method=I.AllocationMethod.LOUDNESS, minimum_bitpool_value=2, maximum_bitpool_value=53),
        )
        self.listener = avdtp.Listener.for_device(cx.B)
        self.listener.on("connection", lambda server: server.add_sink(caps))
        cx.extra[1]["avdtp_servers"] = lambda: list(getattr(self.listener, "servers", {}).keys())

    async def op(self, cx):
        from bumble import avdtp

        protocol = await avdtp.Protocol.connect(cx.conn[("A", 1)])
        eps = await protocol.discover_remote_endpoints()
        return len(list(eps))


PROCS = {p.name: p for p in (
    GattRead, GattLongRead, GattWrite, GattDiscovery, GattIndicate, PairLegacy, PairSc, PairPrompt,
    LeCocConnect, LeCocDisconnect, LeCocDrain, QueueDrain, HciCommand, HciRemoteFeatures,
    ClassicConnect, ClassicDisconnect, RfcommOpen, SdpSearch, AvdtpDiscover,
)}


# ----------------------------------------------------------------------------- one scenario
def _ev(e, o=0, d="", c=0, k="", out="", S=(), layer="", r=""):
    return {"e": e, "o": o, "d": d, "c": c, "k": k, "out": out, "S": list(S), "layer": layer, "r": r}


class Scenario:
    def __init__(self, proc, kind=None, k=None, seed=0, max_delay=0.0, device_patch=None, after=AFTER):
        self.proc_name = proc
        self.kind = kind  # None = uncut run (counts the boundaries)
        self.k = k
        self.seed = seed
        self.max_delay = max_delay
        self.device_patch = device_patch  # self-test shims: callable(net)
        self.after = after
        self.events = []
        self.details = {}  # op id -> (name, outcome detail)
        self.boundaries = 0
        self.cut_at = None
        self.unhandled = []
        self.pending = {}
        self.snap = {}
        self.frozen = False

    # -- helpers
    def conn_id(self, idx, handle):
        return self.hmap[idx].get(handle, GHOST)

    def log_tables(self, net):
        for i, s in enumerate(net.stacks):
            t = tables_of(s)
            for layer in ("ctrl", "host", "device"):
                self.events.append(_ev("tables", d=DEVS[i], layer=layer, S=sorted({self.conn_id(i, h) for h in t[layer]})))

    def log_registries(self, net, cx):
        snap = {}
        for i, s in enumerate(net.stacks):
            owner = None
            if cx.le_coc_owner is not None and i == 0:
                owner = cx.conn[("A", 1)].handle
            regs = registries_of(s, cx.extra.get(i), owner)
            for name, handles in sorted(regs.items()):
                ids = sorted({self.conn_id(i, h) for h in handles})
                snap[(DEVS[i], name)] = ids
                self.events.append(_ev("registry", d=DEVS[i], r=name, S=ids))
        self.snap = snap

    def start(self, name, coro, dev, conn):
        oid = len(self.details) + 1
        task = asyncio.get_running_loop().create_task(coro)
        self.details[oid] = [name, None, task]
        self.pending[oid] = task
        self.events.append(_ev("call", o=oid, d=dev, c=conn))

        def done(t, oid=oid):
            if self.frozen:  # the harness is tearing the loop down: not an outcome
                return
            exc = None if t.cancelled() else t.exception()
            if t.cancelled():
                exc = asyncio.CancelledError()
            cls, detail = classify(exc)
            self.details[oid][1] = (cls, detail)
            self.pending.pop(oid, None)
            self.events.append(_ev("ret", o=oid, out=cls))

        task.add_done_callback(done)
        return task

    async def track_inline(self, name, coro, dev, conn):
        """an awaited operation that the stack itself starts (a delegate prompt): same call / ret events"""
        oid = len(self.details) + 1
        me = asyncio.current_task()
        self.details[oid] = [name, None, me]
        self.pending[oid] = me
        self.events.append(_ev("call", o=oid, d=dev, c=conn))
        exc = None
        try:
            return await coro
        except BaseException as e:
            exc = e
            raise
        finally:
            if not self.frozen:
                cls, detail = classify(exc)
                self.details[oid][1] = (cls, detail)
                self.pending.pop(oid, None)
                self.events.append(_ev("ret", o=oid, out=cls))

    # -- the run
    async def main(self):
        loop = asyncio.get_running_loop()
        loop.set_exception_handler(lambda l, c: self.unhandled.append(str(c.get("exception") or c.get("message"))))
        proc = PROCS[self.proc_name]()
        ctrl_cfg = {"total_num_le_acl_data_packets": 2} if self.proc_name == "data_queue_drain" else None
        net = rig.Net(3, seed=self.seed, max_delay=self.max_delay, controller_cfg=ctrl_cfg)
        self.net = net
        svc, chars = _gatt_service()
        net[1].add_service(svc)
        if proc.transport == "classic":
            rig.enable_classic(net)
        await net.power_on()
        if self.device_patch:
            self.device_patch(net)
        if proc.transport == "le":
            a1, b1 = await net.connect_le(0, 1)
            a2, c2 = await net.connect_le(0, 2)
        else:
            a1, b1 = await net.connect_classic(0, 1)
            a2, c2 = await net.connect_classic(0, 2)
        self.hmap = {0: {a1.handle: 1, a2.handle: 2}, 1: {b1.handle: 1}, 2: {c2.handle: 2}}
        conns = {("A", 1): a1, ("B", 1): b1, ("A", 2): a2, ("C", 2): c2}
        cx = Ctx(net, conns)
        cx.scenario = self
        cx.gatt_chars = chars
        # an application that reacts to the loss of a connection by writing to it (a "goodbye" from inside its
        # disconnection handler, i.e. during the teardown fan-out): whatever it queues must be gone afterwards too
        def goodbye(conn):
            def handler(*_a):
                try:
                    conn.send_l2cap_pdu(0x3E, b"goodbye")
                except Exception:  # refusing the write is fine
                    pass
            return handler

        for conn in conns.values():
            conn.on("disconnection", goodbye(conn))
        self.events.append(_ev("est", c=1))
        self.events.append(_ev("est", c=2))
        await proc.setup(cx)
        await asyncio.sleep(SETTLE)
        self.log_tables(net)

        caller = proc.caller
        other = 1 - caller
        armed = [True]
        cut_done = [False]

        def do_cut():
            if cut_done[0] or self.kind is None:
                return
            cut_done[0] = True
            self.cut_at = self.boundaries
            if self.kind == "transport_loss":
                who = caller
                self.events.append(_ev("cut", k="loss", d=DEVS[who]))
                s = net.stacks[who]
                # nothing in flight on a lost transport is delivered, nothing new gets through
                s.tap.line_h2c.deliver = lambda p: None
                s.tap.line_c2h.deliver = lambda p: None
                s.tap.filter_h2c = lambda p: True
                s.tap.filter_c2h = lambda p: True
                s.host.on_transport_lost()
            else:
                who = caller if self.kind == "local_disconnect" else other
                c = conns[(DEVS[who], 1)]
                self.events.append(_ev("cut", k="disc", d=DEVS[who], c=1))
                self.start("disconnect", c.disconnect(), DEVS[who], 1)

        def schedule_cut():
            if proc.cut_delay:
                loop.call_later(proc.cut_delay, do_cut)
            else:
                loop.call_soon(do_cut)

        def on_packet(direction, packet):
            if not armed[0]:
                return
            self.boundaries += 1
            if self.kind is not None and not cut_done[0] and self.boundaries == self.k:
                schedule_cut()

        for i in (0, 1):
            net.stacks[i].tap.record = on_packet

        task = self.start(proc.name, proc.op(cx), DEVS[caller], 1)
        if self.kind is not None and self.k == 0:
            schedule_cut()
        # let the operation run (a cut run: until the cut is made or the operation has ended)
        await asyncio.wait([task], timeout=60.0)
        await asyncio.sleep(SETTLE if self.kind is None else 0)
        if self.kind is not None and not cut_done[0]:
            do_cut()  # k beyond the last boundary: cut after the operation has ended
        armed[0] = False
        await asyncio.sleep(self.after)
        self.events.append(_ev("quiesce", S=sorted(self.pending)))
        self.log_tables(net)
        self.log_registries(net, cx)
        self.hangs = {oid: (self.details[oid][0], stuck_frame(t)) for oid, t in self.pending.items()}
        self.frozen = True
        return self


def run_scenario(proc, kind=None, k=None, seed=0, max_delay=0.0, device_patch=None):
    import warnings

    from lib import vt

    warnings.filterwarnings("ignore", message="coroutine .* was never awaited", category=RuntimeWarning)
    sc = Scenario(proc, kind, k, seed, max_delay, device_patch)
    vt.run(sc.main())
    return sc
