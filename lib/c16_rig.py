"""C16 rig: catalogue of awaited procedures on real Devices (lib.rig.Net), a cut at message
boundary k, 120 virtual seconds, then the measured connection tables and registries.

One `run_scenario()` = one trace for specs/Stack/TeardownTrace.tla.

Dimensions besides (procedure, cut kind, boundary k, delays):
  * procedures that END IN FAILURE (`Proc.fails`): pairing rejected / declined / wrong passkey, refused
    L2CAP connections, ATT and SDP error responses; cut at k = N means "failed, then cut";
  * re-establishment (phase 2): after a disconnection cut, once link 1 is gone from every table of both
    stacks, the link is established again (the controller re-uses the handle), the per-connection part of
    the set-up is repeated and the same kind of procedure (`Proc.op2`, a variant that is meant to succeed)
    runs on the new incarnation; a second quiesce / tables / registry check-point follows.  Registry
    entries are logged as (connection, incarnation) pairs: the Connection object an entry hangs on tells
    the incarnation (falls back to the handle when no object can be reached);
  * `source_loss`: every Host is attached through a real bumble.transport.common.StreamPacketSource
    (controller -> host bytes go through source.parser.feed_data) and the loss is signalled the way a
    stream transport does it, by source.on_transport_lost();
  * `flip`: link 1 is initiated by B, so the caller's stack A is the link-layer PERIPHERAL of the link
    under test (and still the central of the bystander link).  Every device exposes the GATT service, and
    on every LE link both ends subscribe to the other's characteristic and one indication is confirmed in
    each direction before the procedure starts, so both roles hold GATT server state in every scenario.

Topology (same as the spec): stack A (index 0) holds link 1 to B (index 1) - the link the
procedure runs on - and link 2 to C (index 2), a bystander.  A message boundary is every HCI
packet recorded at the taps of A and B in either direction (ACL data out of a host, ACL data
into a host, commands, events) while the operation is outstanding.  The cut is made from the
event loop (never re-entrantly from inside a send) at the first iteration after boundary k.
"""
from __future__ import annotations

import asyncio

from lib import rig

DEVS = "ABC"
GHOST = 9
SETTLE = 2.0  # virtual seconds to let set-up traffic and its completions drain
AFTER = 120.0  # virtual seconds after the cut: beyond every protocol time-out (GATT 30 s)
AFTER2 = 40.0  # virtual seconds after the procedure on the re-established link (it had 60 s to end before)
KINDS = ("local_disconnect", "remote_disconnect", "transport_loss", "source_loss")
LOSS_KINDS = ("transport_loss", "source_loss")

SVC_UUID = "AAAA0000-0000-1000-8000-00805F9B34FB"
CH_SHORT = "AAAA0001-0000-1000-8000-00805F9B34FB"
CH_LONG = "AAAA0002-0000-1000-8000-00805F9B34FB"
CH_WRITE = "AAAA0003-0000-1000-8000-00805F9B34FB"
CH_IND = "AAAA0004-0000-1000-8000-00805F9B34FB"
LE_PSM = 0x81
LE_PSM_NOBODY = 0x83  # no server: the connection request is refused
CLASSIC_PSM = 0x1001
CLASSIC_PSM_NOBODY = 0x1003


# ----------------------------------------------------------------------------- projections
def _conn_of(x):
    """the Connection object a registry key / value hangs on, if one can be reached (optional)"""
    if x is None or isinstance(x, (int, str, bytes)):
        return None
    if hasattr(x, "handle") and hasattr(x, "peer_address"):
        return x
    c = getattr(x, "connection", None)
    if c is not None and hasattr(c, "handle"):
        return c
    return None


def _entries(d):
    """(handle, Connection object | None) for every entry of a per-connection registry"""
    out = []
    for key, value in list(d.items()):
        if isinstance(key, int):
            h = key
            objs = []
            if isinstance(value, dict):
                objs = [c for c in (_conn_of(v) for v in list(value.values())) if c is not None]
            elif _conn_of(value) is not None:
                objs = [_conn_of(value)]
            if objs:
                seen = set()
                for c in objs:
                    if id(c) not in seen:
                        seen.add(id(c))
                        out.append((h, c))
            else:
                out.append((h, None))
            continue
        c = _conn_of(key)
        h = getattr(c, "handle", None) if c is not None else getattr(key, "handle", None)
        out.append((h if isinstance(h, int) else -1, c))
    return out


def tables_of(stack):
    c = stack.controller
    ctrl = []
    for name in ("le_connections", "classic_connections"):
        for conn in list(getattr(c, name, {}).values()):
            ctrl.append(conn.handle)
    return {
        "ctrl": sorted(ctrl),
        "host": sorted(stack.host.connections.keys()),
        "device": sorted(stack.device.connections.keys()),
    }


def registries_of(stack, extra=None, le_coc_owner=None):
    """name -> [(handle, Connection | None)] a registry mentions.  Public attributes; private ones are
    optional (missing -> that registry is simply not observed)."""
    dev = stack.device
    out = {}
    gs = getattr(dev, "gatt_server", None)
    if gs is not None:
        if hasattr(gs, "subscribers"):
            out["gatt_subscribers"] = _entries(gs.subscribers)
        ind = []
        if hasattr(gs, "pending_confirmations"):
            ind += _entries(gs.pending_confirmations)
        if hasattr(gs, "indication_semaphores"):
            ind += _entries(gs.indication_semaphores)
        out["gatt_indications"] = ind
    sm = getattr(dev, "smp_manager", None)
    if sm is not None and hasattr(sm, "sessions"):
        out["smp_sessions"] = _entries(sm.sessions)
    cm = getattr(dev, "l2cap_channel_manager", None)
    if cm is not None:
        ch = []
        if hasattr(cm, "channels"):
            ch += _entries(cm.channels)
        if hasattr(cm, "le_coc_channels"):
            ch += _entries(cm.le_coc_channels)
        out["l2cap_channels"] = ch
        if hasattr(cm, "identifiers"):
            out["l2cap_identifiers"] = [(h, None) for h, _ in _entries(cm.identifiers)]
        if hasattr(cm, "pending_credit_based_connections"):
            out["l2cap_pending_connections"] = _entries(cm.pending_credit_based_connections)
        # requests are keyed by identifier only; the one LE CoC request of a scenario is made
        # on `le_coc_owner`, so a left-over entry is state of that connection
        if hasattr(cm, "le_coc_requests") and le_coc_owner is not None:
            out["l2cap_le_coc_requests"] = [(le_coc_owner.handle, le_coc_owner)] if len(cm.le_coc_requests) else []
    # queued outbound data: packets waiting in the host or counted in flight
    q = []
    host = stack.host
    seen = set()
    for qn in ("acl_packet_queue", "le_acl_packet_queue"):
        queue = getattr(host, qn, None)
        if queue is None or id(queue) in seen:
            continue
        seen.add(id(queue))
        st = getattr(queue, "_connection_state", None)
        pk = getattr(queue, "_packets", None)
        if st is not None and pk is not None:
            q += [(h, None) for h, s in list(st.items()) if getattr(s, "in_flight", 0) > 0]
            q += [(h, None) for (_, h) in list(pk)]
        elif getattr(queue, "pending", 0) > 0:
            q.append((-1, None))
    out["data_queue"] = q
    # an HCI command of a connection that the controller has not answered (its sender still waits, and so does every
    # later command of this host: they queue behind it)
    cmd = getattr(host, "pending_command", None)
    h = getattr(cmd, "connection_handle", None)
    out["hci_pending_command"] = [(h, None)] if isinstance(h, int) else []
    for name, fn in (extra or {}).items():
        out[name] = [(h, None) for h in fn()]
    return out


def classify(exc):
    """outcome class of a finished awaitable (DESIGN Appendix D: a time-out is an error)."""
    if exc is None:
        return "result", ""
    if isinstance(exc, asyncio.CancelledError):
        return "error", "cancelled"
    return "error", type(exc).__name__


def stuck_frame(task):
    """innermost coroutine an unfinished task is suspended in (diagnostics / signature only)"""
    try:
        co = task.get_coro()
        name = getattr(co, "__qualname__", "?")
        for _ in range(50):
            nxt = getattr(co, "cr_await", None)
            if nxt is None or not hasattr(nxt, "cr_code"):
                break
            co = nxt
            name = getattr(co, "__qualname__", name)
        return name
    except Exception:
        return "?"


# ----------------------------------------------------------------------------- scenario context
class Ctx:
    """what a procedure sees: the net, both ends of link 1, its caller"""

    def __init__(self, net, conns):
        self.net = net
        self.A, self.B, self.C = net[0], net[1], (net[2] if len(net.stacks) > 2 else None)
        self.conn = conns  # conn[("A",1)] = Connection object of the current incarnation of link 1 on A ...
        self.extra = {0: {}, 1: {}, 2: {}}  # extra registries per stack index
        self.le_coc_owner = None
        self.keep = []
        self.phase = 1  # 2: on the re-established link


class Proc:
    name = ""
    transport = "le"
    caller = 0  # index of the stack that awaits the operation
    cut_delay = 0.0  # virtual seconds between boundary k and the cut (0: next loop iteration)
    fails = False  # the operation ENDS IN FAILURE (error outcome) when nobody cuts the link
    flippable = False  # also run with link 1 initiated by B (the caller's stack is the link-layer peripheral)
    controller_cfg = None  # attributes set on every virtual controller (e.g. the number of ACL buffers)
    window = False  # the operation sits in ONE waiting state until something outside the link moves (the user, a slow
    #                 bystander): every cut falls into that window whatever k is, so the quick tier draws no extra k

    async def setup(self, cx):
        """once per scenario: servers, services, pairing configuration"""

    async def bind(self, cx):
        """once per incarnation of link 1 (after setup, and again after the re-establishment)"""

    async def op(self, cx):
        raise NotImplementedError

    async def op2(self, cx):
        """the same kind of procedure on the re-established link; it is meant to complete"""
        return await self.op(cx)


def _gatt_service():
    from bumble import gatt

    P = gatt.Characteristic.Properties
    rw = gatt.Characteristic.READABLE | gatt.Characteristic.WRITEABLE
    chars = [
        gatt.Characteristic(CH_SHORT, P.READ, rw, bytes([1, 2, 3, 4])),
        gatt.Characteristic(CH_LONG, P.READ, rw, bytes(range(60))),
        gatt.Characteristic(CH_WRITE, P.READ | P.WRITE, rw, bytes(4)),
        gatt.Characteristic(CH_IND, P.READ | P.INDICATE, rw, bytes([7])),
    ]
    return gatt.Service(SVC_UUID, chars), chars


class _Gatt(Proc):
    discover = True
    flippable = True

    async def bind(self, cx):
        from bumble.device import Peer

        self.peer = Peer(cx.conn[("A", 1)])
        if self.discover:
            await self.peer.discover_services()
            await self.peer.discover_characteristics()

    def char(self, uuid):
        from bumble.core import UUID

        return self.peer.get_characteristics_by_uuid(UUID(uuid))[0]


class GattRead(_Gatt):
    name = "gatt_read"

    async def op(self, cx):
        return await self.char(CH_SHORT).read_value()


class GattReadError(_Gatt):
    """ATT Error Response (read of a handle that does not exist), then the cut; a good read afterwards"""

    name = "gatt_read_error"
    fails = True

    async def op(self, cx):
        return await self.peer.read_value(0x00F0)

    async def op2(self, cx):
        return await self.char(CH_SHORT).read_value()


class GattLongRead(_Gatt):
    name = "gatt_long_read"

    async def op(self, cx):
        v = await self.char(CH_LONG).read_value()
        assert len(v) == 60, len(v)
        return v


class GattWrite(_Gatt):
    name = "gatt_write"

    async def op(self, cx):
        return await self.char(CH_WRITE).write_value(bytes([9, 9, 9, 9]), with_response=True)


class GattDiscovery(_Gatt):
    name = "gatt_discovery"
    discover = False

    async def op(self, cx):
        await self.peer.discover_services()
        await self.peer.discover_characteristics()
        for s in self.peer.services:
            for c in s.characteristics:
                await c.discover_descriptors()
        return len(self.peer.services)


class GattIndicate(_Gatt):
    name = "gatt_indicate"
    caller = 1

    async def bind(self, cx):
        await super().bind(cx)
        await self.char(CH_IND).subscribe(lambda v: None, prefer_notify=False)

    async def op(self, cx):
        return await cx.B.indicate_subscribers(cx.gatt_chars[1][3])


class _Pair(Proc):
    sc = False

    async def setup(self, cx):
        from bumble.pairing import PairingConfig, PairingDelegate

        for d in (cx.A, cx.B):
            cfg = PairingConfig(sc=self.sc, mitm=False, bonding=True, delegate=PairingDelegate())
            d.pairing_config_factory = (lambda c: (lambda connection: c))(cfg)

    async def op(self, cx):
        return await cx.conn[("A", 1)].pair()


class PairLegacy(_Pair):
    name = "pair_legacy"


class PairSc(_Pair):
    name = "pair_sc"
    sc = True


class PairRejected(_Pair):
    """B's user rejects the pairing (Pairing Failed from the peer); on the re-established link B accepts"""

    name = "pair_rejected"
    fails = True
    sc = True

    async def setup(self, cx):
        from bumble.pairing import PairingConfig, PairingDelegate

        class Moody(PairingDelegate):
            async def accept(self):
                return cx.phase == 2

        cx.A.pairing_config_factory = lambda connection: PairingConfig(sc=self.sc, mitm=False, bonding=True, delegate=PairingDelegate())
        cx.B.pairing_config_factory = lambda connection: PairingConfig(sc=self.sc, mitm=False, bonding=True, delegate=Moody())


class PairRejectedLegacy(PairRejected):
    name = "pair_rejected_legacy"
    sc = False


class PairDeclined(Proc):
    """SC numeric comparison: A's user says "no" (the local side fails the pairing and sends Pairing Failed);
    on the re-established link the user says "yes" """

    name = "pair_declined"
    fails = True

    async def setup(self, cx):
        from bumble.pairing import PairingConfig, PairingDelegate

        io = PairingDelegate.IoCapability.DISPLAY_OUTPUT_AND_YES_NO_INPUT

        class Asking(PairingDelegate):
            async def compare_numbers(self, number, digits):
                return cx.phase == 2

        cx.A.pairing_config_factory = lambda connection: PairingConfig(sc=True, mitm=True, bonding=True, delegate=Asking(io))
        cx.B.pairing_config_factory = lambda connection: PairingConfig(sc=True, mitm=True, bonding=True, delegate=PairingDelegate(io))

    async def op(self, cx):
        return await cx.conn[("A", 1)].pair()


class PairWrongPasskey(Proc):
    """legacy passkey entry: B displays, A's user types a wrong number (Confirm Value Failed); the right one on
    the re-established link"""

    name = "pair_wrong_passkey"
    fails = True

    async def setup(self, cx):
        from bumble.pairing import PairingConfig, PairingDelegate

        shown = []

        class Display(PairingDelegate):
            async def display_number(self, number, digits):
                shown.append(number)

        class Keyboard(PairingDelegate):
            async def get_number(self):
                for _ in range(50):
                    if shown:
                        break
                    await asyncio.sleep(0.01)
                n = shown[-1] if shown else 0
                return n if cx.phase == 2 else (n + 1) % 1000000

        cx.A.pairing_config_factory = lambda connection: PairingConfig(
            sc=False, mitm=True, bonding=True, delegate=Keyboard(PairingDelegate.IoCapability.KEYBOARD_INPUT_ONLY))
        cx.B.pairing_config_factory = lambda connection: PairingConfig(
            sc=False, mitm=True, bonding=True, delegate=Display(PairingDelegate.IoCapability.DISPLAY_OUTPUT_ONLY))

    async def op(self, cx):
        return await cx.conn[("A", 1)].pair()


async def user_prompt_wait(answers):
    if answers:
        await asyncio.sleep(5.0)
        return True
    await asyncio.get_running_loop().create_future()  # the user walked away


class PairPrompt(Proc):
    """SC numeric comparison; the user of A is asked and (in the cut runs) never answers: the prompt
    is an operation waiting on the connection, it has to be cancelled when the link goes.  On the
    re-established link the user answers."""

    name = "pair_user_prompt"
    cut_delay = 1.0  # the cut falls into the gap after boundary k (the prompt is a gap without traffic)

    async def setup(self, cx):
        from bumble.pairing import PairingConfig, PairingDelegate

        sc = cx.scenario
        io = PairingDelegate.IoCapability.DISPLAY_OUTPUT_AND_YES_NO_INPUT

        class Asking(PairingDelegate):
            async def compare_numbers(self, number, digits):
                name = "user_prompt" if cx.phase == 1 else "user_prompt.again"
                return await sc.track_inline(name, user_prompt_wait(sc.kind is None or cx.phase == 2), "A", 1)

        cx.A.pairing_config_factory = lambda connection: PairingConfig(sc=True, mitm=True, bonding=True, delegate=Asking(io))
        cx.B.pairing_config_factory = lambda connection: PairingConfig(sc=True, mitm=True, bonding=True, delegate=PairingDelegate(io))

    async def op(self, cx):
        return await cx.conn[("A", 1)].pair()


async def passkey_typing(answers, shown):
    if not answers:
        await asyncio.get_running_loop().create_future()  # the user walked away
    await asyncio.sleep(5.0)
    return shown[-1] if shown else 0


class PairPasskeyPrompt(Proc):
    """passkey entry, keyboard side: the stack of `keyboard` asks its delegate for the passkey the peer displays
    (PairingDelegate.get_number) and the user (in the cut runs) never types it: the prompt is an operation the stack
    started for the connection, it has to end (be cancelled) when the link goes.  Uncut and on the re-established link
    the user types the displayed number after 5 s."""

    name = "pair_passkey_prompt"
    cut_delay = 1.0  # the cut falls into the gap after boundary k (the prompt is a gap without traffic)
    window = True
    sc = False
    keyboard = 0  # index of the stack with the keyboard (0: the initiator of the pairing, 1: the responder)

    async def setup(self, cx):
        from bumble.pairing import PairingConfig, PairingDelegate

        sc = cx.scenario
        kb = self.keyboard
        shown = []

        class Display(PairingDelegate):
            async def display_number(self, number, digits):
                shown.append(number)

        class Keyboard(PairingDelegate):
            async def get_number(self):
                name = "passkey_prompt" if cx.phase == 1 else "passkey_prompt.again"
                return await sc.track_inline(name, passkey_typing(sc.kind is None or cx.phase == 2, shown), DEVS[kb], 1)

        def factory(i):
            cls, io = ((Keyboard, PairingDelegate.IoCapability.KEYBOARD_INPUT_ONLY) if i == kb
                       else (Display, PairingDelegate.IoCapability.DISPLAY_OUTPUT_ONLY))
            return lambda connection: PairingConfig(sc=self.sc, mitm=True, bonding=True, delegate=cls(io))

        cx.A.pairing_config_factory = factory(0)
        cx.B.pairing_config_factory = factory(1)

    async def op(self, cx):
        return await cx.conn[("A", 1)].pair()


class PairPasskeyPromptSc(PairPasskeyPrompt):
    name = "pair_passkey_prompt_sc"
    sc = True


class PairPasskeyPromptResponder(PairPasskeyPrompt):
    """the responder of the pairing (B) has the keyboard"""

    name = "pair_passkey_prompt_responder"
    sc = True
    keyboard = 1


def _le_spec(psm):
    from bumble import l2cap

    return l2cap.LeCreditBasedChannelSpec(psm=psm, max_credits=4, mtu=64, mps=32)


class LeCocConnect(Proc):
    name = "l2cap_le_connect"
    flippable = True

    async def setup(self, cx):
        self.accepted = []
        cx.B.create_l2cap_server(spec=_le_spec(LE_PSM), handler=self.accepted.append)

    async def bind(self, cx):
        cx.le_coc_owner = cx.conn[("A", 1)]

    async def op(self, cx):
        return await cx.conn[("A", 1)].create_l2cap_channel(spec=_le_spec(LE_PSM))


class LeCocRefused(LeCocConnect):
    """no server on the PSM: the peer refuses; a connect to a served PSM on the re-established link"""

    name = "l2cap_le_refused"
    fails = True

    async def op(self, cx):
        return await cx.conn[("A", 1)].create_l2cap_channel(spec=_le_spec(LE_PSM_NOBODY))

    async def op2(self, cx):
        return await LeCocConnect.op(self, cx)


class LeCocDisconnect(LeCocConnect):
    name = "l2cap_le_disconnect"

    async def bind(self, cx):
        await super().bind(cx)
        self.channel = await LeCocConnect.op(self, cx)

    async def op(self, cx):
        return await self.channel.disconnect()


class LeCocDrain(LeCocDisconnect):
    name = "l2cap_le_drain"

    async def op(self, cx):
        self.accepted[-1].sink = lambda data: None
        self.channel.write(bytes(400))
        return await self.channel.drain()


class QueueDrain(Proc):
    """outbound data queued in the host (2 controller buffers), then DataPacketQueue.drain"""

    name = "data_queue_drain"
    flippable = True
    controller_cfg = {"total_num_le_acl_data_packets": 2}

    async def op(self, cx):
        c = cx.conn[("A", 1)]
        for i in range(6):
            c.send_l2cap_pdu(0x0004, bytes([0x52, 0x30, 0x00, i]))  # ATT Write Command, unknown handle
        q = c.data_packet_queue
        return await q.drain(c.handle)


def hold_completions(cx, idx, conn, seconds):
    """the peer of `conn` is slow: for `seconds` virtual seconds the controller of stack `idx` reports no completed
    packets for that connection (its Number Of Completed Packets events are held back at the tap and handed to the
    host afterwards), so whatever is sent on `conn` keeps the controller's buffers occupied"""
    from bumble import hci

    tap = cx.net.stacks[idx].tap
    loop = asyncio.get_running_loop()
    held = []

    def slow(packet):
        if len(packet) > 2 and packet[0] == hci.HCI_EVENT_PACKET and packet[1] == hci.HCI_NUMBER_OF_COMPLETED_PACKETS_EVENT:
            ev = hci.HCI_Packet.from_bytes(packet)
            if list(ev.connection_handles) == [conn.handle]:
                held.append(packet)
                return True
        return False

    def release():
        if tap.filter_c2h is slow:  # (a lost transport has its own filter: nothing is delivered any more)
            tap.filter_c2h = None
            for p in held:
                tap.line_c2h.push(p)
        held.clear()

    tap.filter_c2h = slow
    loop.call_later(seconds, release)


class QueueDrainStarved(Proc):
    """DataPacketQueue.drain on a connection whose outbound data is queued in the host with NOTHING of it in flight:
    the two controller buffers are shared by A's links, the bystander link (peer C is slow: no completions for 5
    virtual seconds) holds both, so what is written to link 1 waits in the host; a task drains link 1.  The cut
    falls into that window (1 s after boundary k): the waiter has to be released although the closed connection
    has nothing to give back to the buffer accounting."""

    name = "data_queue_drain_starved"
    controller_cfg = {"total_num_le_acl_data_packets": 2}
    cut_delay = 1.0
    window = True
    flippable = True

    async def op(self, cx):
        c, other = cx.conn[("A", 1)], cx.conn[("A", 2)]
        hold_completions(cx, 0, other, 5.0)
        for i in range(2):
            other.send_l2cap_pdu(0x0004, bytes([0x52, 0x30, 0x00, i]))  # ATT Write Command, unknown handle
        for i in range(2):
            c.send_l2cap_pdu(0x0004, bytes([0x52, 0x30, 0x00, 8 + i]))
        return await c.data_packet_queue.drain(c.handle)


class HciCommand(Proc):
    name = "hci_command"

    async def op(self, cx):
        return await cx.conn[("A", 1)].get_phy()


class HciRemoteFeatures(Proc):
    """an HCI command whose result arrives in a later event"""

    name = "hci_remote_features"

    async def op(self, cx):
        return await cx.A.get_remote_le_features(cx.conn[("A", 1)])


def _classic_spec(psm):
    from bumble import l2cap

    return l2cap.ClassicChannelSpec(psm=psm)


class ClassicConnect(Proc):
    name = "l2cap_classic_connect"
    transport = "classic"
    flippable = True

    async def setup(self, cx):
        self.accepted = []
        cx.B.create_l2cap_server(spec=_classic_spec(CLASSIC_PSM), handler=self.accepted.append)

    async def op(self, cx):
        return await cx.conn[("A", 1)].create_l2cap_channel(spec=_classic_spec(CLASSIC_PSM))


class ClassicRefused(ClassicConnect):
    name = "l2cap_classic_refused"
    fails = True

    async def op(self, cx):
        return await cx.conn[("A", 1)].create_l2cap_channel(spec=_classic_spec(CLASSIC_PSM_NOBODY))

    async def op2(self, cx):
        return await ClassicConnect.op(self, cx)


class ClassicDisconnect(ClassicConnect):
    name = "l2cap_classic_disconnect"

    async def bind(self, cx):
        self.channel = await ClassicConnect.op(self, cx)

    async def op(self, cx):
        return await self.channel.disconnect()


class RfcommOpen(Proc):
    name = "rfcomm_open"
    transport = "classic"

    async def setup(self, cx):
        from bumble import rfcomm

        self.dlcs = []
        self.server = rfcomm.Server(cx.B)
        self.channel = self.server.listen(acceptor=self.dlcs.append)

    async def op(self, cx):
        from bumble import rfcomm

        mux = await rfcomm.Client(cx.conn[("A", 1)]).start()
        return await mux.open_dlc(self.channel)


class SdpSearch(Proc):
    name = "sdp_search"
    transport = "classic"

    async def setup(self, cx):
        from bumble import sdp
        from bumble.core import BT_L2CAP_PROTOCOL_ID, UUID

        self.uuid = UUID("E6D55659-C8B4-4B85-96BB-B1143AF6D3AE")
        recs = {}
        for i in range(3):
            h = 0x00010001 + i
            recs[h] = [
                sdp.ServiceAttribute(sdp.SDP_SERVICE_RECORD_HANDLE_ATTRIBUTE_ID, sdp.DataElement.unsigned_integer_32(h)),
                sdp.ServiceAttribute(sdp.SDP_SERVICE_CLASS_ID_LIST_ATTRIBUTE_ID, sdp.DataElement.sequence([sdp.DataElement.uuid(self.uuid)])),
                sdp.ServiceAttribute(sdp.SDP_PROTOCOL_DESCRIPTOR_LIST_ATTRIBUTE_ID,
                                     sdp.DataElement.sequence([sdp.DataElement.sequence([sdp.DataElement.uuid(BT_L2CAP_PROTOCOL_ID)])])),
            ]
        cx.B.sdp_server.service_records.update(recs)

    async def op(self, cx):
        from bumble import sdp

        client = sdp.Client(cx.conn[("A", 1)])
        await client.connect()
        r = await client.search_attributes([self.uuid], [(0x0000, 0xFFFF)])
        await client.disconnect()
        return len(r)


class SdpError(SdpSearch):
    """SDP Error Response (attributes of a record that does not exist); the client's channel stays open"""

    name = "sdp_error"
    fails = True

    async def op(self, cx):
        from bumble import sdp

        client = sdp.Client(cx.conn[("A", 1)])
        await client.connect()
        return await client.get_attributes(0x0DEAD000, [(0x0000, 0xFFFF)])

    async def op2(self, cx):
        return await SdpSearch.op(self, cx)


class AvdtpDiscover(Proc):
    name = "avdtp_discover"
    transport = "classic"

    async def setup(self, cx):
        from bumble import a2dp, avdtp

        I = a2dp.SbcMediaCodecInformation
        caps = avdtp.MediaCodecCapabilities(
            media_type=avdtp.MediaType.AUDIO,
            media_codec_type=a2dp.CodecType.SBC,
            media_codec_information=I(
                sampling_frequency=I.SamplingFrequency.SF_44100, channel_mode=I.ChannelMode.JOINT_STEREO,
                block_length=I.BlockLength.BL_16, subbands=I.Subbands.S_8,
                allocation_method=I.AllocationMethod.LOUDNESS, minimum_bitpool_value=2, maximum_bitpool_value=53),
        )
        self.listener = avdtp.Listener.for_device(cx.B)
        self.listener.on("connection", lambda server: server.add_sink(caps))
        cx.extra[1]["avdtp_servers"] = lambda: list(getattr(self.listener, "servers", {}).keys())

    async def op(self, cx):
        from bumble import avdtp

        protocol = await avdtp.Protocol.connect(cx.conn[("A", 1)])
        eps = await protocol.discover_remote_endpoints()
        return len(list(eps))


PROCS = {p.name: p for p in (
    GattRead, GattReadError, GattLongRead, GattWrite, GattDiscovery, GattIndicate,
    PairLegacy, PairSc, PairRejected, PairRejectedLegacy, PairDeclined, PairWrongPasskey, PairPrompt,
    PairPasskeyPrompt, PairPasskeyPromptSc, PairPasskeyPromptResponder,
    LeCocConnect, LeCocRefused, LeCocDisconnect, LeCocDrain, QueueDrain, QueueDrainStarved, HciCommand, HciRemoteFeatures,
    ClassicConnect, ClassicRefused, ClassicDisconnect, RfcommOpen, SdpSearch, SdpError, AvdtpDiscover,
)}


# ----------------------------------------------------------------------------- one scenario
def _ev(e, o=0, d="", c=0, k="", out="", S=(), layer="", x="", R=()):
    return {"e": e, "o": o, "d": d, "c": c, "k": k, "out": out, "S": list(S), "layer": layer, "x": x, "R": list(R)}


class Scenario:
    def __init__(self, proc, kind=None, k=None, seed=0, max_delay=0.0, device_patch=None, after=AFTER, flip=False, again=True):
        self.proc_name = proc
        self.kind = kind  # None = uncut run (counts the boundaries)
        self.k = k
        self.seed = seed
        self.max_delay = max_delay
        self.device_patch = device_patch  # self-test shims: callable(net)
        self.after = after
        self.flip = flip  # link 1 initiated by B
        self.again = again  # re-establish link 1 after a disconnection cut and run the procedure again
        self.events = []
        self.details = {}  # op id -> (name, outcome detail)
        self.boundaries = 0
        self.cut_at = None
        self.unhandled = []
        self.pending = {}
        self.snap = {}
        self.frozen = False
        self.hmap = {0: {}, 1: {}, 2: {}}  # stack index -> handle -> (connection id, incarnation)
        self.cur = {1: 0, 2: 0}  # connection id -> latest incarnation
        self.objinc = {}  # id(Connection object) -> (connection id, incarnation)
        self.reestablished = False

    # -- helpers
    def register(self, idx, conn, cid, g):
        self.hmap[idx][conn.handle] = (cid, g)
        self.objinc[id(conn)] = (cid, g)
        self.cur[cid] = max(self.cur[cid], g)
        self.keepalive = getattr(self, "keepalive", [])
        self.keepalive.append(conn)  # ids must stay unique

    def conn_id(self, idx, handle):
        """table entry (a handle) -> connection id; the handle of an older incarnation that is not the handle of
        the latest one is nobody's"""
        cid, g = self.hmap[idx].get(handle, (GHOST, 0))
        return cid if cid != GHOST and g == self.cur[cid] else GHOST

    def entry_id(self, idx, handle, obj):
        """registry entry -> [connection id, incarnation]: by the Connection object it hangs on when one can be
        reached, otherwise by the handle (= the latest incarnation that had this handle on this stack)"""
        if obj is not None and id(obj) in self.objinc:
            return list(self.objinc[id(obj)])
        return list(self.hmap[idx].get(handle, (GHOST, 0)))

    def log_tables(self, net):
        for i, s in enumerate(net.stacks):
            t = tables_of(s)
            for layer in ("ctrl", "host", "device"):
                self.events.append(_ev("tables", d=DEVS[i], layer=layer, S=sorted({self.conn_id(i, h) for h in t[layer]})))

    def log_registries(self, net, cx):
        snap = {}
        for i, s in enumerate(net.stacks):
            regs = registries_of(s, cx.extra.get(i), cx.le_coc_owner if i == 0 else None)
            rows = []
            for name, entries in sorted(regs.items()):
                ids = sorted({tuple(self.entry_id(i, h, o)) for h, o in entries})
                snap[(DEVS[i], name)] = [list(x) for x in ids]
                rows.append({"r": name, "S": [list(x) for x in ids]})
            self.events.append(_ev("registry", d=DEVS[i], R=rows))  # one event per stack: all its registries
        self.snap = snap

    def start(self, name, coro, dev, conn, expect=""):
        oid = len(self.details) + 1
        task = asyncio.get_running_loop().create_task(coro)
        self.details[oid] = [name, None, task]
        self.pending[oid] = task
        self.events.append(_ev("call", o=oid, d=dev, c=conn, x=expect))

        def done(t, oid=oid):
            if self.frozen:  # the harness is tearing the loop down: not an outcome
                return
            exc = None if t.cancelled() else t.exception()
            if t.cancelled():
                exc = asyncio.CancelledError()
            cls, detail = classify(exc)
            self.details[oid][1] = (cls, detail)
            self.pending.pop(oid, None)
            self.events.append(_ev("ret", o=oid, out=cls))

        task.add_done_callback(done)
        return task

    async def track_inline(self, name, coro, dev, conn):
        """an awaited operation that the stack itself starts (a delegate prompt): same call / ret events"""
        oid = len(self.details) + 1
        me = asyncio.current_task()
        self.details[oid] = [name, None, me]
        self.pending[oid] = me
        self.events.append(_ev("call", o=oid, d=dev, c=conn))
        exc = None
        try:
            return await coro
        except BaseException as e:
            exc = e
            raise
        finally:
            if not self.frozen:
                cls, detail = classify(exc)
                self.details[oid][1] = (cls, detail)
                self.pending.pop(oid, None)
                self.events.append(_ev("ret", o=oid, out=cls))

    async def connect_link1(self, net, transport):
        """-> (A's, B's) Connection of a new incarnation of link 1; initiated by A, or by B when flipped"""
        ini, acc = (1, 0) if self.flip else (0, 1)
        connect = net.connect_le if transport == "le" else net.connect_classic
        task = asyncio.ensure_future(connect(ini, acc))
        await asyncio.wait([task], timeout=60.0)  # (wait_for would wait for the cancellation to be honoured)
        if not task.done():
            task.cancel()
            raise RuntimeError(f"link 1 is not established within 60 virtual seconds (suspended in {stuck_frame(task)})")
        x, y = task.result()
        return (y, x) if self.flip else (x, y)

    async def background(self, cx, chars):
        """every LE link: both ends subscribe (indications) to the other's characteristic and one indication is
        confirmed in each direction, so that the GATT server of the central and of the peripheral both hold
        state for the connection (raw CCCD write: all devices expose the same service, same handles)"""
        from bumble import gatt

        def cccd(i):
            # the server adds the CCCD right behind the characteristic value
            return next(a.handle for a in cx.net.devices[i].gatt_server.attributes
                        if a.handle > chars[i][3].handle and a.type == gatt.GATT_CLIENT_CHARACTERISTIC_CONFIGURATION_DESCRIPTOR)

        for (d, c), peer in ((("A", 1), 1), (("B", 1), 0), (("A", 2), 2), (("C", 2), 0)):
            await cx.conn[(d, c)].gatt_client.write_value(cccd(peer), bytes([2, 0]), with_response=True)
        for i, dev in enumerate(cx.net.devices):
            await dev.indicate_subscribers(chars[i][3])

    # -- the run
    async def main(self):
        loop = asyncio.get_running_loop()
        loop.set_exception_handler(lambda l, c: self.unhandled.append(str(c.get("exception") or c.get("message"))))
        proc = PROCS[self.proc_name]()
        net = rig.Net(3, seed=self.seed, max_delay=self.max_delay, controller_cfg=proc.controller_cfg)
        self.net = net
        sources = None
        if self.kind == "source_loss":
            # the Host sits behind a real stream-transport source: controller -> host bytes are parsed by the
            # source's PacketParser, and the source is what learns that the transport died
            from bumble.transport.common import StreamPacketSource

            sources = []
            for s in net.stacks:
                src = StreamPacketSource()
                src.set_packet_sink(s.host)
                s.tap.line_c2h.deliver = src.parser.feed_data
                sources.append(src)
        net.sources = sources or []
        chars = []
        for dev in net.devices:
            svc, ch = _gatt_service()
            dev.add_service(svc)
            chars.append(ch)
        if proc.transport == "classic":
            rig.enable_classic(net)
        await net.power_on()
        if self.device_patch:
            self.device_patch(net)
        a1, b1 = await self.connect_link1(net, proc.transport)
        if proc.transport == "le":
            a2, c2 = await net.connect_le(0, 2)
        else:
            a2, c2 = await net.connect_classic(0, 2)
        for idx, conn, cid in ((0, a1, 1), (1, b1, 1), (0, a2, 2), (2, c2, 2)):
            self.register(idx, conn, cid, 1)
        conns = {("A", 1): a1, ("B", 1): b1, ("A", 2): a2, ("C", 2): c2}
        self.roles = {("A", 1): "peripheral" if self.flip else "central", ("B", 1): "central" if self.flip else "peripheral",
                      ("A", 2): "central", ("C", 2): "peripheral"}
        cx = Ctx(net, conns)
        cx.scenario = self
        cx.gatt_chars = chars
        # an application that reacts to the loss of a connection by writing to it (a "goodbye" from inside its
        # disconnection handler, i.e. during the teardown fan-out): whatever it queues must be gone afterwards too
        def goodbye(conn):
            def handler(*_a):
                try:
                    conn.send_l2cap_pdu(0x3E, b"goodbye")
                except Exception:  # refusing the write is fine
                    pass
            return handler

        for conn in conns.values():
            conn.on("disconnection", goodbye(conn))
        self.events.append(_ev("est", c=1))
        self.events.append(_ev("est", c=2))
        if proc.transport == "le":
            await self.background(cx, chars)
        await proc.setup(cx)
        await proc.bind(cx)
        await asyncio.sleep(SETTLE)
        self.log_tables(net)

        caller = proc.caller
        other = 1 - caller
        armed = [True]
        cut_done = [False]

        def do_cut():
            if cut_done[0] or self.kind is None:
                return
            cut_done[0] = True
            self.cut_at = self.boundaries
            if self.kind in LOSS_KINDS:
                who = caller
                self.events.append(_ev("cut", k="loss", d=DEVS[who]))
                s = net.stacks[who]
                # nothing in flight on a lost transport is delivered, nothing new gets through
                s.tap.line_h2c.deliver = lambda p: None
                s.tap.line_c2h.deliver = lambda p: None
                s.tap.filter_h2c = lambda p: True
                s.tap.filter_c2h = lambda p: True
                if sources is not None:
                    sources[who].on_transport_lost()  # what StreamPacketSource.connection_lost() does
                else:
                    s.host.on_transport_lost()
            else:
                who = caller if self.kind == "local_disconnect" else other
                c = conns[(DEVS[who], 1)]
                self.events.append(_ev("cut", k="disc", d=DEVS[who], c=1))
                self.start("disconnect", c.disconnect(), DEVS[who], 1)

        def schedule_cut():
            if proc.cut_delay:
                loop.call_later(proc.cut_delay, do_cut)
            else:
                loop.call_soon(do_cut)

        def on_packet(direction, packet):
            if not armed[0]:
                return
            self.boundaries += 1
            if self.kind is not None and not cut_done[0] and self.boundaries == self.k:
                schedule_cut()

        for i in (0, 1):
            net.stacks[i].tap.record = on_packet

        task = self.start(proc.name, proc.op(cx), DEVS[caller], 1)
        if self.kind is not None and self.k == 0:
            schedule_cut()
        # let the operation run (a cut run: until the cut is made or the operation has ended)
        await asyncio.wait([task], timeout=60.0)
        await asyncio.sleep(SETTLE if self.kind is None else 0)
        if self.kind is not None and not cut_done[0]:
            do_cut()  # k beyond the last boundary: cut after the operation has ended
        armed[0] = False
        await asyncio.sleep(self.after)
        self.events.append(_ev("quiesce", S=sorted(self.pending)))
        self.log_tables(net)
        self.log_registries(net, cx)

        # phase 2: the link was closed by a disconnection and is gone from every table of both stacks ->
        # establish it again (the controller re-uses the handle) and run the same kind of procedure on it
        def link1_gone():
            for i, c in ((0, a1), (1, b1)):
                t = tables_of(net.stacks[i])
                if any(self.hmap[i].get(h, (0, 0))[0] == 1 for layer in t.values() for h in layer):
                    return False
            return True

        def hosts_idle():
            # a host with an unanswered HCI command cannot send another one (the observation above reports it when it
            # is a command of the closed connection): no point in asking it to connect
            return all(getattr(net.stacks[i].host, "pending_command", None) is None for i in (0, 1))

        if self.again and self.kind in ("local_disconnect", "remote_disconnect") and link1_gone() and hosts_idle():
            cx.phase = 2
            self.events.append(_ev("est", c=1))
            a1n, b1n = await self.connect_link1(net, proc.transport)
            self.reestablished = True
            self.register(0, a1n, 1, 2)
            self.register(1, b1n, 1, 2)
            conns[("A", 1)], conns[("B", 1)] = a1n, b1n
            for conn in (a1n, b1n):
                conn.on("disconnection", goodbye(conn))
            await proc.bind(cx)
            await asyncio.sleep(SETTLE)
            # on a fresh link with a willing peer this operation completes: anything else is the old link's doing
            task2 = self.start(proc.name + ".again", proc.op2(cx), DEVS[caller], 1, expect="result")
            await asyncio.wait([task2], timeout=60.0)
            await asyncio.sleep(AFTER2)
            self.events.append(_ev("quiesce", S=sorted(self.pending)))
            self.log_tables(net)
            self.log_registries(net, cx)
        self.hangs = {oid: (self.details[oid][0], stuck_frame(t)) for oid, t in self.pending.items()}
        self.frozen = True
        return self


def run_scenario(proc, kind=None, k=None, seed=0, max_delay=0.0, device_patch=None, flip=False, again=True):
    import warnings

    from lib import vt

    warnings.filterwarnings("ignore", message="coroutine .* was never awaited", category=RuntimeWarning)
    sc = Scenario(proc, kind, k, seed, max_delay, device_patch, flip=flip, again=again)
    vt.run(sc.main())
    return sc
