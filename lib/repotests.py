"""Run the repository's own tests under the passive HCI monitor (lib/hcimon.py as a pytest
plugin) and validate every recorded trace against specs/Stack/HciMonitor.tla.  The result is
cached per process and shared by the C03 / C04 / C05 drivers, each of which reports the
rejections whose failed clause belongs to it."""
from __future__ import annotations

import json
import os
import subprocess
import sys

from . import tlc

VERIF = os.path.dirname(os.path.dirname(os.path.abspath(__file__)))
QUICK_TESTS = ["tests/l2cap_test.py", "tests/gatt_test.py", "tests/device_test.py", "tests/host_test.py", "tests/rfcomm_test.py", "tests/sdp_test.py"]
_cache = {}


def run(ctx):
    key = ctx.tier
    if key in _cache:
        return _cache[key]
    repo = os.environ.get("VERIF_REPO", "/repo")
    out = os.path.join(ctx.out, f"hcimon-{ctx.tier}.json")
    if os.path.exists(out):
        os.remove(out)
    env = dict(os.environ, HCIMON_OUT=out, PYTHONPATH=f"{repo}:{VERIF}", PYTHONDONTWRITEBYTECODE="1")
    tests = QUICK_TESTS if ctx.quick else ["tests"]
    cmd = [sys.executable, "-B", "-m", "pytest", "-p", "lib.hcimon", "-p", "no:cacheprovider", "-q", "--timeout=900", "-x", "--no-header"] + tests
    r = subprocess.run(cmd, cwd=repo, env=env, capture_output=True, text=True, timeout=1800)
    if not os.path.exists(out):
        raise tlc.TlcError(f"repository tests under the HCI monitor produced no trace file:\n{(r.stdout + r.stderr)[-2000:]}")
    with open(out) as f:
        traces = json.load(f)
    os.remove(out)
    # failing repository tests are not this machinery's business: their traces are still validated
    rejects = []
    states = 0
    B = 150 if ctx.quick else 500
    import concurrent.futures

    def one(i):
        return i, tlc.trace_batch(os.path.join(VERIF, "specs", "Stack", "HciMonitor.tla"), os.path.join(VERIF, "specs", "Stack", "HciMonitor.cfg"), traces[i : i + B], tag="hcimon")

    with concurrent.futures.ThreadPoolExecutor(max_workers=4) as ex:
        results = list(ex.map(one, range(0, len(traces), B)))
    for i, res in results:
        states += res["states"]
        for tid, v in res["verdicts"].items():
            if v[0] != "ACCEPT":
                tr = traces[i + tid - 1]
                info = v[3] if len(v) > 3 and isinstance(v[3], dict) else {}
                failed = sorted(str(x) for x in info.get("failed", [])) or ["unparsed"]
                rejects.append({"test": tr["test"], "role": tr["role"], "line": v[1], "event": v[2] if len(v) > 2 else None, "failed": failed, "state": {k: repr(x) for k, x in info.items() if k != "failed"}})
    res = {"traces": len(traces), "events": sum(len(t["events"]) for t in traces), "states": states, "rejects": rejects,
           "pytest_tail": (r.stdout or "").strip().splitlines()[-1:] }
    _cache[key] = res
    return res


def report(ctx, rep, prefix):
    """Add the monitor's findings for clauses starting with `prefix` (e.g. 'C04_') to rep."""
    res = run(ctx)
    rep.extra["repo_tests_monitor"] = {"traces": res["traces"], "events": res["events"], "tlc_states": res["states"], "pytest": res["pytest_tail"]}
    rep.traces += res["traces"]
    rep.evaluations += res["traces"]
    for rj in res["rejects"]:
        mine = [c for c in rj["failed"] if c.startswith(prefix) or c == "unparsed"]
        for c in mine:
            rep.violation(f"hcimon:{c}", f"repository test {rj['test']} ({rj['role']} side): HCI trace rejected at event {rj['line']} {rj['event']}: clause {c} fails; monitor state {rj['state']}",
                          {"part": "hcimon", "test": rj["test"], "role": rj["role"], "line": rj["line"], "event": rj["event"]})
    return res
