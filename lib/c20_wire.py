"""C20 observation layer.

* an RFCOMM frame parser written from TS 07.10 5.2 / 5.4 and RFCOMM 1.2 section 6.5 (NOT bumble's classes):
  address / control / length indicator with EA bit / information / FCS, the credit octet of UIH frames with
  P/F = 1, multiplexer commands PN and MSC;
* `L2capTap`: L2CAP PDUs at the HCI boundary of one lib.rig.Stack with the harness' own ACL reassembly (outbound:
  when the first fragment leaves the host; inbound: immediately before the last fragment is handed to the host,
  so whatever the host does in reaction is logged after its cause) and its own reading of the L2CAP
  configuration requests (MTU option) of the channel that carries RFCOMM;
* `Recorder`: the ordered event log of one scenario in the vocabulary of DESIGN Appendix B row C20 and its
  projection onto one trace per (data link instance, direction) for specs/Rfcomm/DlcTrace.tla and one trace for
  specs/Rfcomm/MuxTrace.tla.

Sides: 0 = the RFCOMM initiator (client), 1 = the responder (server).
"""
from __future__ import annotations

import struct

SABM, UA, DM, DISC, UIH = 0x2F, 0x63, 0x0F, 0x43, 0xEF
KIND = {SABM: "SABM", UA: "UA", DM: "DM", DISC: "DISC", UIH: "UIH"}
MCC_PN, MCC_MSC = 0x20, 0x38


# ----------------------------------------------------------------------------- frame parser (TS 07.10)
def fcs(data):
    """CRC-8, polynomial x^8+x^2+x+1 (reflected 0xE0), initial value 0xFF, ones complement"""
    c = 0xFF
    for b in data:
        c ^= b
        for _ in range(8):
            c = (c >> 1) ^ 0xE0 if c & 1 else c >> 1
    return 0xFF - c


class FrameError(Exception):
    pass


def _ea_length(b, off):
    """length indicator at offset off -> (L, octets)"""
    if off >= len(b):
        raise FrameError("no length indicator")
    if b[off] & 1:
        return b[off] >> 1, 1
    if off + 1 >= len(b):
        raise FrameError("two-octet length indicator cut short")
    return (b[off] >> 1) | (b[off + 1] << 7), 2


def parse_frame(b):
    """-> dict(dlci, cr, ty, kind, pf, L, info, credits, data, total).  Raises FrameError when the octets are not a
    well-formed RFCOMM frame (the sender's fault: reported by the caller as a violation of the frame layout)."""
    b = bytes(b)
    if len(b) < 4:
        raise FrameError("shorter than address+control+length+fcs")
    if not b[0] & 1:
        raise FrameError("address EA bit clear")
    dlci, cr = b[0] >> 2, (b[0] >> 1) & 1
    ty, pf = b[1] & 0xEF, (b[1] >> 4) & 1
    if ty not in KIND:
        raise FrameError(f"unknown control field 0x{b[1]:02x}")
    L, n = _ea_length(b, 2)
    info = b[2 + n : -1]
    want = fcs(b[:2]) if ty == UIH else fcs(b[: 2 + n])
    if b[-1] != want:
        raise FrameError(f"FCS 0x{b[-1]:02x}, computed 0x{want:02x}")
    credits = None
    data = info
    if ty == UIH and pf == 1 and dlci != 0:
        if len(info) < 1:
            raise FrameError("P/F = 1 without credit octet")
        credits, data = info[0], info[1:]
    if len(data) != L:
        raise FrameError(f"length indicator {L}, {len(data)} octets present")
    if ty != UIH and L != 0:
        raise FrameError("information in a non-UIH frame")
    if L > 127 and n == 1 or L <= 127 and n == 2:
        raise FrameError("length indicator not in its shortest form")
    return {"dlci": dlci, "cr": cr, "ty": ty, "kind": KIND[ty], "pf": pf, "L": L, "info": info, "credits": credits, "data": data, "total": len(b)}


def parse_mcc(info):
    """multiplexer command in a UIH frame on DLCI 0 -> dict(ty, cr, value)"""
    if len(info) < 2 or not info[0] & 1:
        raise FrameError("malformed multiplexer command type")
    L, n = _ea_length(info, 1)
    value = info[1 + n : 1 + n + L]
    if len(value) != L:
        raise FrameError("multiplexer command value cut short")
    return {"ty": info[0] >> 2, "cr": (info[0] >> 1) & 1, "value": value}


def parse_pn(value):
    if len(value) != 8:
        raise FrameError("PN value is not 8 octets")
    return {"dlci": value[0] & 0x3F, "cl": value[1] >> 4, "prio": value[2] & 0x3F, "mfs": value[4] | (value[5] << 8), "k": value[7] & 7}


def parse_msc(value):
    if len(value) < 2:
        raise FrameError("MSC value shorter than 2 octets")
    return {"dlci": value[0] >> 2, "signals": value[1]}


# ----------------------------------------------------------------------------- HCI boundary observer
class L2capTap:
    """own ACL reassembly at the HCI boundary of one lib.rig.Stack.
    outbound (host -> controller): `out_start()` when the FIRST fragment of a PDU leaves the host (returns a token: the
        position of the event in the log), `out_done(token, cid, payload)` when its last fragment has left;
    inbound (controller -> host): `inbound(cid, payload)` immediately BEFORE the last fragment is handed to the host (so
        what the host does in reaction is logged after its cause)."""

    def __init__(self, stack, out_start, out_done, inbound):
        self.out_start, self.out_done, self.inbound = out_start, out_done, inbound
        self._out = {}
        self._in = {}
        tap = stack.tap
        prev = tap.record

        def record(direction, packet):
            if prev:
                prev(direction, packet)
            if direction == "h2c":
                self._acl(packet, self._out, True)

        tap.record = record
        orig = tap.line_c2h.deliver

        def deliver(packet):
            self._acl(packet, self._in, False)
            orig(packet)

        tap.line_c2h.deliver = deliver

    def _acl(self, packet, table, outbound):
        if not packet or packet[0] != 0x02 or len(packet) < 5:
            return
        hf, ln = struct.unpack_from("<HH", packet, 1)
        handle, pb = hf & 0x0FFF, (hf >> 12) & 3
        data = packet[5 : 5 + ln]
        if pb in (0, 2):
            if len(data) < 4:
                raise RuntimeError("harness: ACL start fragment shorter than the L2CAP header")
            plen, cid = struct.unpack_from("<HH", data, 0)
            st = [plen, cid, bytearray(data[4:]), self.out_start() if outbound else None]
            table[handle] = st
        else:
            st = table.get(handle)
            if st is None:
                return
            st[2] += data
        if len(st[2]) >= st[0]:
            table.pop(handle, None)
            payload = bytes(st[2][: st[0]])
            if outbound:
                self.out_done(st[3], st[1], payload)
            else:
                self.inbound(st[1], payload)


def config_mtu(sig_pdu):
    """L2CAP signalling PDU -> [(dcid, mtu)] for every Configure Request it holds (Core Vol 3 Part A 4.4, 5.1)"""
    out = []
    off = 0
    while off + 4 <= len(sig_pdu):
        code, ident, ln = struct.unpack_from("<BBH", sig_pdu, off)
        body = sig_pdu[off + 4 : off + 4 + ln]
        off += 4 + ln
        if code == 0x04 and len(body) >= 4:
            dcid = body[0] | (body[1] << 8)
            mtu = None
            o = 4
            while o + 2 <= len(body):
                t, l = body[o] & 0x7F, body[o + 1]
                if t == 0x01 and l == 2 and o + 4 <= len(body):
                    mtu = body[o + 2] | (body[o + 3] << 8)
                o += 2 + l
            out.append((dcid, mtu))
    return out


# ----------------------------------------------------------------------------- recorder
FIELDS = {"e": "", "side": 0, "at": "", "kind": "", "dlci": 0, "n": 0, "pf": 0, "credits": 0, "flen": 0, "size": 0, "ok": True,
          "mux": ["", ""], "open": [[], []], "listed": [[], []], "busy": [[], []], "what": ""}


def _ev(e, lk=None, **kw):
    d = dict(FIELDS)
    d["e"] = e
    d.update(kw)
    d["_lk"] = lk  # link index, "all", or None (not an event of a data link)
    return d


def public(ev):
    return {k: v for k, v in ev.items() if k != "_lk"}


class Link:
    """one data link instance: from the PN response for its DLCI until the UA answering a DISC has arrived (or the end)"""

    def __init__(self, idx, dlci, pn):
        self.idx = idx
        self.dlci = dlci
        self.pn = pn  # [PN announced by side 0, by side 1]: dict(mfs, k)
        self.stream = [bytearray(), bytearray()]  # bytes written by side s
        self.delivered = [0, 0]  # bytes of direction s handed to the sink of 1-s
        self.frames = [0, 0]
        self.closed = False


class Recorder:
    def __init__(self):
        self.log = []  # every event, in causal order
        self.links = []
        self.cur = {}  # dlci -> Link (the open instance)
        self.pnc = {}  # dlci -> (side, PN command seen)
        self.l2mtu = [None, None]  # L2CAP MTU side s announced for the channel that carries RFCOMM
        self.anomalies = []
        self.disc_pending = {}

    def reserve(self):
        self.log.append(None)
        return len(self.log) - 1

    def _put(self, ev, slot=None):
        if slot is not None and self.log[slot] is None:
            self.log[slot] = ev
        else:
            self.log.append(ev)

    # --- frames.  side = the SENDER; at = "tx" (leaves the sender's host) / "rx" (about to be handed to the receiver's host)
    def frame(self, side, at, payload, slot=None):
        try:
            f = parse_frame(payload)
        except FrameError as e:
            if at == "tx":
                self._put(_ev("malformed", side=side, at=at, what=str(e), n=len(payload)), slot)
                self.anomalies.append((side, f"malformed frame on the wire: {e}: {bytes(payload[:12]).hex()}"))
            return
        if f["ty"] == UIH and f["dlci"] != 0:
            lk = self.cur.get(f["dlci"])
            ev = _ev("uih", lk.idx if lk else None, side=side, at=at, dlci=f["dlci"], n=f["L"], pf=f["pf"], credits=f["credits"] or 0, flen=f["total"])
            if lk is None:
                if at == "rx":
                    return  # judged where it left its sender; what the receiver makes of it is not observable here
                ev["e"] = "stray"
                ev["what"] = f"UIH frame on DLCI {f['dlci']} which is no open data link"
                self.anomalies.append((side, ev["what"]))
            elif at == "tx":
                lk.frames[side] += 1
            self._put(ev, slot)
            return
        if f["ty"] == UIH:
            try:
                m = parse_mcc(f["info"])
                if m["ty"] == MCC_PN:
                    pn = parse_pn(m["value"])
                    kind = "PNC" if m["cr"] else "PNR"
                    ev = _ev("ctl", side=side, at=at, kind=kind, dlci=pn["dlci"], size=pn["mfs"], credits=pn["k"])
                    if at == "tx" and kind == "PNC":
                        self.pnc[pn["dlci"]] = (side, pn)
                    elif at == "tx":
                        req = self.pnc.pop(pn["dlci"], None)
                        if req is not None and req[0] == 1 - side:
                            both = [None, None]
                            both[side], both[1 - side] = pn, req[1]
                            old = self.cur.get(pn["dlci"])
                            if old is not None:
                                old.closed = True
                            lk = Link(len(self.links), pn["dlci"], both)
                            self.links.append(lk)
                            self.cur[pn["dlci"]] = lk
                elif m["ty"] == MCC_MSC:
                    ms = parse_msc(m["value"])
                    ev = _ev("ctl", side=side, at=at, kind="MSCC" if m["cr"] else "MSCR", dlci=ms["dlci"])
                else:
                    ev = _ev("ctl", side=side, at=at, kind="MCC", n=m["ty"])
            except FrameError as e:
                ev = _ev("malformed", side=side, at=at, what="multiplexer command: " + str(e))
                if at == "tx":
                    self.anomalies.append((side, ev["what"]))
            self._put(ev, slot)
            return
        self._put(_ev("ctl", side=side, at=at, kind=f["kind"], dlci=f["dlci"]), slot)
        if f["dlci"] != 0:
            if at == "tx" and f["kind"] == "DISC":
                self.disc_pending[f["dlci"]] = side
            elif at == "rx" and f["kind"] in ("UA", "DM") and self.disc_pending.get(f["dlci"]) == 1 - side:
                # the DISC of 1-side has been answered and the answer is arriving: the instance is over on both ends
                self.disc_pending.pop(f["dlci"], None)
                lk = self.cur.pop(f["dlci"], None)
                if lk is not None:
                    lk.closed = True

    # --- application level
    def write(self, side, dlci, data):
        lk = self.cur.get(dlci)
        if lk is not None:
            lk.stream[side] += data
        self.log.append(_ev("write", lk.idx if lk else None, side=side, dlci=dlci, n=len(data)))

    def sink(self, side, lk, data):
        """side = the RECEIVER; lk = the link instance the DLC object carrying this sink belongs to"""
        d = 1 - side
        off = lk.delivered[d]
        ok = bytes(lk.stream[d][off : off + len(data)]) == bytes(data)
        lk.delivered[d] = off + len(data)
        self.log.append(_ev("sink", lk.idx, side=side, dlci=lk.dlci, n=len(data), ok=ok))

    def raised(self, side, what, dlci=0):
        self.anomalies.append((side, what))
        lk = self.cur.get(dlci) if dlci else None
        self.log.append(_ev("raise", lk.idx if lk else "all", side=side, dlci=dlci, what=what))

    def api(self, side, op, dlci, outcome):
        self.log.append(_ev("api", side=side, kind=op, dlci=dlci, what=outcome))

    def state(self, mux, opened, listed, busy):
        self.log.append(_ev("state", mux=list(mux), open=[sorted(opened[0]), sorted(opened[1])],
                            listed=[sorted(listed[0]), sorted(listed[1])], busy=[sorted(busy[0]), sorted(busy[1])]))

    def quiesce(self, pending):
        self.log.append(_ev("quiesce", "all", n=len(pending), what=",".join(pending)))

    # --- projections
    def dlc_traces(self):
        """-> [(link idx, direction, events)]: one trace per direction d (sender = side d) of every data link.  The header
        carries what the RECEIVER 1-d announced: maximum frame size and initial credits (its PN) and its L2CAP MTU."""
        out = []
        for lk in self.links:
            evs = [public(e) for e in self.log if e is not None and (e["_lk"] == lk.idx or e["_lk"] == "all")]
            for d in (0, 1):
                rcv = lk.pn[1 - d]
                head = public(_ev("open", side=d, dlci=lk.dlci, size=rcv["mfs"], credits=rcv["k"], flen=self.l2mtu[1 - d] or 672))
                out.append((lk.idx, d, [head] + evs))
        return out

    def mux_trace(self):
        return [public(e) for e in self.log if e is not None and e["e"] in ("ctl", "state", "stray", "raise", "malformed", "quiesce", "api")]
