"""C05 scenario runners (code -> spec): real two-device networks with per-controller ACL buffer
geometries, a real Host fed with reference fragments and malformed fragments, a real Host with CIS / BIS
links for send_iso_sdu.  Every runner returns plain event lists for the trace specs; nothing is decided here."""
from __future__ import annotations

import asyncio
import random

from lib import c05_wire as w
from lib import rig, vt

ACL_LENGTHS = [27, 28, 64, 251, 1021, 65535]
ACL_COUNTS = [1, 2, 64]
BIG = [65531, 65532, 65535]


def pdu_lengths(f, big=BIG, ks=(1, 2, 3)):
    """payload lengths {0, 1, kF-5..kF+1 for k in ks} + big ones, 0 <= L <= 65535"""
    out = [0, 1]
    for k in ks:
        for d in range(-5, 2):
            v = k * f + d
            if 0 <= v <= 65535 and v not in out:
                out.append(v)
    for v in big:
        if v not in out:
            out.append(v)
    return out


def sender_f(cfg, transport):
    """the fragment size the property prescribes for a host in front of a controller with this geometry"""
    if transport == "le" and cfg.get("le_acl_data_packet_length", 27) and cfg.get("total_num_le_acl_data_packets", 64):
        return cfg.get("le_acl_data_packet_length", 27)
    return cfg.get("acl_data_packet_length", 27)


# ----------------------------------------------------------------------------- two real stacks
async def _link_scenario(sc, patch=None):
    rng = random.Random(sc["seed"])
    by = sc.get("bystander")
    cfgs = [dict(c) for c in sc["cfg"]]
    if by:
        cfgs.append(dict(sc["cfg"][1]))
    net = rig.Net(3 if by else 2, seed=sc["seed"], max_delay=sc.get("max_delay", 0.002), controller_cfg=cfgs)
    excs = []
    asyncio.get_running_loop().set_exception_handler(lambda loop, c: excs.append(repr(c.get("exception") or c.get("message"))))
    if sc["transport"] == "bredr":
        rig.enable_classic(net)
    await net.power_on()
    central = sc.get("central", 0)
    if sc["transport"] == "le":
        cc, pc = await net.connect_le(central, 1 - central)
    else:
        cc, pc = await net.connect_classic(central, 1 - central)
    conns = {central: cc, 1 - central: pc}
    by_conns = None
    if by:
        # a second link of device 0, to a bystander; it is torn down while device 0's fragments wait for buffers
        if sc["transport"] == "le":
            by_conns = await net.connect_le(0, 2)
        else:
            by_conns = await net.connect_classic(0, 2)
    await asyncio.sleep(2.0)
    if patch:
        patch(net)  # binding self-test shims
    handles = [conns[0].handle, conns[1].handle]
    dirs = [w.Direction(sc["transport"]), w.Direction(sc["transport"])]  # dirs[d]: data flowing d -> 1-d
    activity = [0]

    for i in (0, 1):
        st = net.stacks[i]
        dirs[i].buf(w.buffer_sizes(st.tap.log))
        st.host.remove_listener("l2cap_pdu", st.device.on_l2cap_pdu)

        def on_pdu(handle, cid, pdu, i=i):
            if handle == handles[i]:
                dirs[1 - i].pdu_in(cid, pdu)

        st.host.on("l2cap_pdu", on_pdu)
        real_send = st.host.send_l2cap_pdu

        def send(handle, cid, pdu, i=i, real_send=real_send):
            if handle == handles[i]:
                dirs[i].pdu_out(cid, pdu)
            return real_send(handle, cid, pdu)

        st.host.send_l2cap_pdu = send

        def record(direction, packet, i=i):
            activity[0] += 1
            p = w.acl_parse(packet)
            if p is None or p["handle"] != handles[i]:
                return
            if direction == "h2c":
                dirs[i].frag(p)
            else:
                dirs[1 - i].cfrag(p)

        st.tap.record = record

    # the PDUs: both directions, interleaved by the seed; paced or in one burst
    todo = [(d, L) for d in (0, 1) for L in sc["lens"][d]]
    if sc.get("shuffle", True):
        # keep each direction's own order, interleave the two
        a = [x for x in todo if x[0] == 0]
        b = [x for x in todo if x[0] == 1]
        todo = []
        while a or b:
            src = a if (a and (not b or rng.random() < 0.5)) else b
            todo.append(src.pop(0))
    count = [0, 0]
    for d, L in todo:
        count[d] += 1
        k = count[d]
        net.stacks[d].host.send_l2cap_pdu(handles[d], 0x40 + (k % 16), w.payload_bytes(sc["seed"], f"{d}/{k}", L))
        if sc.get("pace") == "paced":
            await asyncio.sleep(rng.choice([0.0, 0.001, 0.05]))
    if by:
        if by.get("after"):
            await asyncio.sleep(by["after"])
        await by_conns[by["side"]].disconnect()
    # run until nothing moves any more (virtual time)
    idle = 0
    last = -1
    for _ in range(sc.get("max_rounds", 40000)):
        await asyncio.sleep(0.25)
        if activity[0] == last:
            idle += 1
            if idle >= 8:
                break
        else:
            idle = 0
            last = activity[0]
    for d in (0, 1):
        dirs[d].quiesce()
    return {"traces": [dirs[0].tx, dirs[0].rx, dirs[1].tx, dirs[1].rx], "excs": excs[:5]}


def link_scenario(sc, patch=None):
    return vt.run(_link_scenario(sc, patch))


# ----------------------------------------------------------------------------- one real Host, fed by the harness
class HostRig:
    """A real Host behind a real Controller (for the reset / buffer-size exchange), connections made by
    injected connection-complete events, controller -> host packets handed to Host.on_packet."""

    def __init__(self, controller_cfg=None):
        from bumble.controller import Controller
        from bumble.host import Host

        self.controller = Controller("C", public_address=rig.addr(0))
        for k, v in (controller_cfg or {}).items():
            setattr(self.controller, k, v)
        self.host = Host()
        self.tap = rig.HciTap(self.host, self.controller)
        self.next_handle = 0x0040
        self.pdus = []  # (handle, cid, payload)
        self.host.on("l2cap_pdu", lambda handle, cid, pdu: self.pdus.append((handle, cid, bytes(pdu))))

    async def start(self):
        await self.host.reset()

    def connect(self, kind="le"):
        from bumble import hci

        h = self.next_handle
        self.next_handle += 1
        if self.next_handle > 0x0EFF:
            self.next_handle = 0x0040
        if kind == "le":
            e = hci.HCI_LE_Connection_Complete_Event(
                status=0, connection_handle=h, role=0, peer_address_type=0, peer_address=hci.Address(rig.addr(7)),
                connection_interval=6, peripheral_latency=0, supervision_timeout=100, central_clock_accuracy=0)
        else:
            e = hci.HCI_Connection_Complete_Event(status=0, connection_handle=h, bd_addr=hci.Address(rig.addr(7)), link_type=1, encryption_enabled=0)
        self.host.on_packet(bytes(e))
        if h not in self.host.connections:
            raise RuntimeError("harness: injected connection did not appear in Host.connections")
        return h

    def disconnect(self, h):
        from bumble import hci

        self.host.on_packet(bytes(hci.HCI_Disconnection_Complete_Event(status=0, connection_handle=h, reason=0x13)))

    def feed(self, h, pb, data):
        """-> (exception or None, [(cid, payload)] delivered by this packet)"""
        n0 = len(self.pdus)
        exc = None
        try:
            self.host.on_packet(w.acl_build(h, pb, data))
        except Exception as e:  # reported by the caller; Host.on_packet is a transport sink, transports contain this
            exc = e
        got = [(c, p) for (hh, c, p) in self.pdus[n0:] if hh == h]
        del self.pdus[n0:]
        return exc, got


JUNK = 0xEE


def host_trace(hr, rng, seed, npdus, fault_rate, kind="le"):
    """One connection of a real Host: reference-fragmented PDUs (arbitrary split) with malformed fragments
    inserted between / inside them.  -> (events, script) where script re-creates the packets."""
    d = w.Direction("host")
    h = hr.connect(kind)
    script = []

    def deliver(exc, got):
        for cid, payload in got:
            d.pdu_in(cid, payload)

    def fault(mid, cur):
        r = rng.random()
        if mid and r < 0.2:
            k2, pb = "dup", w.PB_START_CTRL
            data = cur["whole"][: cur["first"]]
        elif r < 0.6:
            k2, pb = "cont", w.PB_CONT
            data = bytes([JUNK]) * rng.choice([1, 2, 3, 4, 5, 27, 251, 1021, cur["left"] if cur and cur["left"] else 7,
                                               (cur["left"] + 1) if cur else 9, 60000])
        else:
            k2, pb = "start", rng.choice([w.PB_START_CTRL, w.PB_START_HOST])
            n = rng.choice([0, 1, 2, 3, 4, 5, 27, 300])
            decl = rng.choice([0, 1, n - 4 if n >= 4 else 0, n + 10, 65535, 2])
            data = (decl.to_bytes(2, "little") + bytes([JUNK]) * max(0, n - 2))[:n]
        d.fault(k2, pb, data)
        script.append(("fault", pb, data.hex() if len(data) < 64 else (len(data), data[:2].hex())))
        deliver(*hr.feed(h, pb, data))

    for i in range(1, npdus + 1):
        L = rng.choice([0, 1, 2, 3, 22, 23, 24, 27, 60, 247, 251, 1017, 1021, 4000, rng.randint(0, 300), rng.randint(0, 70000) % 65536])
        if rng.random() < 0.03:
            L = rng.choice(BIG)
        cid = 0x40 + (i % 16)
        payload = w.payload_bytes(seed, i, L)
        d.pdu_out(cid, payload)
        whole = w.l2cap_pdu(cid, payload)
        f = rng.choice([2, 3, 4, 5, 7, 27, 28, 64, 251, 1021, 65535] if L <= 300 else [27, 28, 64, 251, 1021, 65535])
        sizes = [f] if rng.random() < 0.7 else [rng.randint(2, max(2, f)) for _ in range(6)]
        frags = w.split(whole, sizes)
        if rng.random() < fault_rate:
            fault(False, None)
        # at most two malformed fragments inside the PDU, at positions drawn now
        inside = set()
        if len(frags) > 1:
            for _ in range(2):
                if rng.random() < fault_rate / 2:
                    inside.add(rng.choice([0, len(frags) - 2, rng.randrange(len(frags) - 1)]))
        off = 0
        for k, fr in enumerate(frags):
            pb = (w.PB_START_CTRL if rng.random() < 0.8 else w.PB_START_HOST) if k == 0 else w.PB_CONT
            p = {"pb": pb, "ln": len(fr), "data": fr}
            d.cfrag(p)
            deliver(*hr.feed(h, pb, fr))
            off += len(fr)
            if k in inside:
                fault(True, {"whole": whole, "first": len(frags[0]), "left": len(whole) - off})
        script.append(("pdu", L, cid, sizes))
    d.quiesce()
    hr.disconnect(h)
    return d.rx, script


# ----------------------------------------------------------------------------- ISO
async def _iso_scenario(sc, patch=None):
    """Real Host behind a real Controller advertising iso_data_packet_length = sc['fi']; a CIS (injected
    LE CIS Established) or BIS (injected LE Create BIG Complete) link; SDUs through Host.send_iso_sdu."""
    from bumble import hci
    from bumble.controller import Controller
    from bumble.host import Host

    controller = Controller("C", public_address=rig.addr(0))
    controller.iso_data_packet_length = sc["fi"]
    controller.total_num_iso_data_packets = sc.get("count", 64)
    host = Host()
    tap = rig.HciTap(host, controller)
    await host.reset()
    if patch:
        patch(host)
    handle = 0x0060
    if sc.get("link", "cis") == "cis":
        e = hci.HCI_LE_CIS_Established_Event(
            status=0, connection_handle=handle, cig_sync_delay=0, cis_sync_delay=0, transport_latency_c_to_p=0,
            transport_latency_p_to_c=0, phy_c_to_p=1, phy_p_to_c=1, nse=1, bn_c_to_p=1, bn_p_to_c=1, ft_c_to_p=1,
            ft_p_to_c=1, max_pdu_c_to_p=251, max_pdu_p_to_c=251, iso_interval=8)
    else:
        e = hci.HCI_LE_Create_BIG_Complete_Event(
            status=0, big_handle=1, big_sync_delay=0, transport_latency_big=0, phy=1, nse=1, bn=1, pto=0, irc=1,
            max_pdu=251, iso_interval=8, connection_handle=[handle])
    host.on_packet(bytes(e))
    links = host.cis_links if sc.get("link", "cis") == "cis" else host.bis_links
    if handle not in links:
        raise RuntimeError("harness: injected ISO link did not appear in the Host")
    if sc.get("psn0") is not None:
        links[handle].packet_sequence_number = sc["psn0"]  # public field: start near the wrap
    s = w.IsoStream()
    s.buf(w.buffer_sizes(tap.log))

    def filt(packet):
        if packet[0] != w.HCI_ISO:
            return False
        p = w.iso_parse(packet)
        if p["handle"] == handle:
            s.packet(p)
            # the virtual controller has no ISO data path: complete the packet on its behalf
            tap.inject_to_host(w.number_of_completed_packets(handle, 1))
        return True

    tap.filter_h2c = filt
    for k, S in enumerate(sc["sdus"], start=1):
        sdu = w.payload_bytes(sc["seed"], k, S)
        s.sdu_out(sdu)
        host.send_iso_sdu(handle, sdu)
        if k % 64 == 0:
            await asyncio.sleep(0.01)
    await asyncio.sleep(1.0)
    q = host.iso_packet_queue
    s.quiesce()
    return {"events": s.events, "pending": getattr(q, "pending", 0)}


def iso_scenario(sc, patch=None):
    return vt.run(_iso_scenario(sc, patch))


async def _iso_real_cis(sc, patch=None):
    """Two real devices, a real LE connection and a real CIS (Device.setup_cig / create_cis / accept_cis_request);
    SDUs through Host.send_iso_sdu on both ends.  -> one event list per end."""
    from bumble.device import CigParameters

    net = rig.Net(2, seed=sc["seed"], max_delay=0.002, controller_cfg=[{"iso_data_packet_length": sc["fi"][0], "total_num_iso_data_packets": sc.get("count", 64)},
                                                                         {"iso_data_packet_length": sc["fi"][1], "total_num_iso_data_packets": sc.get("count", 64)}])
    await net.power_on()
    cc, pc = await net.connect_le(0, 1)
    loop = asyncio.get_running_loop()
    established = loop.create_future()

    def on_cis_request(cis_link):
        cis_link.acl_connection.cancel_on_disconnection(net[1].accept_cis_request(cis_link))

    net[1].on("cis_request", on_cis_request)
    net[1].on("cis_establishment", lambda cis_link: established.done() or established.set_result(cis_link))
    handles = await net[0].setup_cig(CigParameters(cig_id=1, cis_parameters=[CigParameters.CisParameters(cis_id=2)],
                                                    sdu_interval_c_to_p=0, sdu_interval_p_to_c=0))
    links = await net[0].create_cis([(handles[0], cc)])
    plink = await established
    hs = [links[0].handle, plink.handle]
    streams = [w.IsoStream(), w.IsoStream()]
    for i in (0, 1):
        st = net.stacks[i]
        if hs[i] not in st.host.cis_links:
            raise RuntimeError("harness: established CIS is not in Host.cis_links")
        if patch:
            patch(st.host)
        streams[i].buf(w.buffer_sizes(st.tap.log))

        def filt(packet, i=i, st=st):
            if packet[0] != w.HCI_ISO:
                return False
            p = w.iso_parse(packet)
            if p["handle"] == hs[i]:
                streams[i].packet(p)
                st.tap.inject_to_host(w.number_of_completed_packets(hs[i], 1))
            return True

        st.tap.filter_h2c = filt
    for k, S in enumerate(sc["sdus"], start=1):
        for i in (0, 1):
            sdu = w.payload_bytes(sc["seed"], f"{i}/{k}", S)
            streams[i].sdu_out(sdu)
            net.stacks[i].host.send_iso_sdu(hs[i], sdu)
        await asyncio.sleep(0.01)
    await asyncio.sleep(1.0)
    for s in streams:
        s.quiesce()
    return {"events": [streams[0].events, streams[1].events]}


def iso_real_cis(sc, patch=None):
    import warnings

    with warnings.catch_warnings():
        warnings.simplefilter("ignore", FutureWarning)  # accept_cis_request & co. are marked "only for testing"
        return vt.run(_iso_real_cis(sc, patch))
